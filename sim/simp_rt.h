/* simp_rt.h -- the round-trip job of simp (included by simp.c)
 *
 *   rt K N     parse the current input twice (A, B).  For every task i:
 *              pop K occurrences of A[i] and of B[i]; write A[i] out the way
 *              echsd's checkpoint, echsq's submission and echse merge do
 *              (echs_icalify_init/echs_task_icalify/echs_icalify_fini) and
 *              read the text back (C).  Print, with N occurrences each,
 *                ctrl = B[i]   (consumed K, never serialised)
 *                orig = A[i]   (consumed K, serialised: writing must not consume)
 *                back = C      (what a reader of the written text gets)
 *              and the written text in hex. */
#include <sys/mman.h>

#define RT_MAXT	(32)

static size_t
rt_parse(echs_task_t *ts, size_t nts, const char *data, size_t dz)
{
	ical_parser_t pp = NULL;
	size_t n = 0U;

	if (echs_evical_push(&pp, data, dz) < 0) {
		return 0U;
	}
	for (echs_instruc_t ins;
	     (ins = echs_evical_pull(&pp)).v == INSVERB_SCHE;) {
		if (ins.t == NULL) {
			continue;
		} else if (n < nts) {
			ts[n++] = ins.t;
		} else {
			free_echs_task(ins.t);
		}
	}
	if (pp != NULL) {
		echs_instruc_t ins = echs_evical_last_pull(&pp);
		if (ins.v == INSVERB_SCHE && ins.t != NULL) {
			if (n < nts) {
				ts[n++] = ins.t;
			} else {
				free_echs_task(ins.t);
			}
		}
	}
	return n;
}

static int
rt_consume(echs_task_t t, int k)
{
	int i;

	if (t->strm == NULL) {
		return 0;
	}
	for (i = 0; i < k; i++) {
		if (echs_event_0_p(echs_evstrm_pop(t->strm))) {
			break;
		}
	}
	return i;
}

static void
job_rt(const char *data, size_t dz, int k, int nocc)
{
	static char text[1 << 18];
	echs_task_t a[RT_MAXT], b[RT_MAXT], c[RT_MAXT];
	size_t na = rt_parse(a, RT_MAXT, data, dz);
	size_t nb = rt_parse(b, RT_MAXT, data, dz);

	printf("ntasks=%zu\n", na);
	if (na != nb) {
		printf("parse-unstable %zu %zu\n", na, nb);
		return;
	}
	for (size_t i = 0U; i < na; i++) {
		int ka = rt_consume(a[i], k);
		int kb = rt_consume(b[i], k);
		int fd = memfd_create("rt", 0);
		ssize_t tz;
		size_t nc;
		int wrc;

		printf("T%zu k=%d kb=%d\n", i, ka, kb);
		echs_icalify_init(fd, (echs_instruc_t){INSVERB_SCHE, .t = a[i]});
		echs_task_icalify(fd, a[i]);
		wrc = echs_icalify_fini(fd);
		tz = pread(fd, text, sizeof(text) - 1U, 0);
		close(fd);
		if (tz < 0) {
			tz = 0;
		}
		printf("text wrc=%d ", wrc);
		for (ssize_t j = 0; j < tz; j++) {
			printf("%02x", (unsigned char)text[j]);
		}
		printf("\n");
		/* should what follows crash, the text is on record */
		fflush(stdout);
		nc = rt_parse(c, RT_MAXT, text, (size_t)tz);
		printf("ctrl");
		dump_task(b[i], nocc);
		printf("\norig");
		dump_task(a[i], nocc);
		printf("\nnback=%zu\n", nc);
		for (size_t j = 0U; j < nc; j++) {
			printf("back");
			dump_task(c[j], nocc);
			printf("\n");
			free_echs_task(c[j]);
		}
	}
	for (size_t i = 0U; i < na; i++) {
		free_echs_task(a[i]);
		free_echs_task(b[i]);
	}
	printf("end\n");
}
