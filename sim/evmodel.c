#include <sys/wait.h>
/* evmodel.c -- virtual-time model of the libev 4.33 subset used by echse
 *
 * Linked INSTEAD of -lev.  Struct layouts and macros come from the real
 * <ev.h>; struct ev_loop is opaque there, so we define our own.
 *
 * Semantics reproduced (see DESIGN.md 3.2, checked by evmodel_conf):
 *  - one loop time per iteration (ev_rt_now == mn_now here)
 *  - periodics fire when at < now (strict); reschedule callbacks of all
 *    expired periodics run (earliest first) before any watcher callback
 *  - pending events are kept on per-priority stacks and invoked LIFO, fed
 *    in the order ev_run() feeds them: io (poll order), then timers, then
 *    periodics (both via feed_reverse); signals and children are fed from
 *    callbacks running at EV_MAXPRI at the start of the invoke phase
 *  - child watchers are bumped to EV_MAXPRI when their pid is reaped
 *  - ev_*_stop clears a pending event; ev_break lets the phase finish
 *  - reschedule callback returning a time in the past: contract violation
 */
#include <stdlib.h>
#include <string.h>
#include <stdio.h>
#include <signal.h>
#include "evmodel.h"

#define NUMPRI	(EV_MAXPRI - EV_MINPRI + 1)
#define ABSPRI(w)	(((ev_watcher*)(w))->priority - EV_MINPRI)
#define MAXW	8192

struct ev_loop {
	int inited;
	double now;
	unsigned long iter;
	int loop_done;
	int activecnt;
	int depth;

	ev_io *ios[MAXW];
	int nios;
	ev_timer *timers[MAXW];
	int ntimers;
	ev_periodic *periodics[MAXW];
	int nperiodics;
	ev_signal *signals[256];
	int nsignals;
	ev_child *childs[MAXW];
	int nchilds;

	/* start order, to break ties deterministically */
	unsigned long seq;

	struct pend_s {
		ev_watcher *w;
		int events;
	} *pend[NUMPRI];
	int npend[NUMPRI];
	int zpend[NUMPRI];
	int pendingpri;

	/* ev_loop_fork() was called; acted upon at the top of ev_run() */
	int postfork;
	/* the wall clock was stepped; acted upon when the iteration begins */
	int jumped;
	/* libev >= 4.31 keeps a timerfd once a periodic has been started
	 * (to notice clock changes); it is what makes ev_loop_fork()
	 * reschedule all periodics */
	int timerfd;
	ev_watcher timerfd_w;
};

struct evm_host evm_host;
static struct ev_loop the_loop;
struct ev_loop *ev_default_loop_ptr;
static ev_watcher pending_w;

static void
dummy_cb(struct ev_loop *l, ev_watcher *w, int r)
{
	(void)l, (void)w, (void)r;
}

void
evm_reset(double now)
{
	struct ev_loop *l = &the_loop;

	for (int i = 0; i < NUMPRI; i++) {
		free(l->pend[i]);
	}
	memset(l, 0, sizeof(*l));
	l->now = now;
	pending_w.cb = dummy_cb;
	ev_default_loop_ptr = NULL;
}

double
evm_now(void)
{
	return the_loop.now;
}

void
evm_set_now(double now)
{
	if (now > the_loop.now) {
		the_loop.now = now;
	}
}

void
evm_clock_step(double dt)
{
	struct ev_loop *l = &the_loop;

	l->now += dt;
	for (int i = 0; i < l->ntimers; i++) {
		l->timers[i]->at += dt;
	}
	l->jumped = 1;
}

unsigned long
evm_iter(void)
{
	return the_loop.iter;
}

int
evm_nactive(int kind)
{
	switch (kind) {
	case 'i': return the_loop.nios;
	case 't': return the_loop.ntimers;
	case 'p': return the_loop.nperiodics;
	case 's': return the_loop.nsignals;
	case 'c': return the_loop.nchilds;
	}
	return 0;
}


/* generic helpers */
static void
ev_start_(struct ev_loop *l, ev_watcher *w)
{
	if (w->priority < EV_MINPRI) w->priority = EV_MINPRI;
	if (w->priority > EV_MAXPRI) w->priority = EV_MAXPRI;
	w->active = 1;
	l->activecnt++;
}

static void
ev_stop_(struct ev_loop *l, ev_watcher *w)
{
	l->activecnt--;
	w->active = 0;
}

static void
clear_pending(struct ev_loop *l, ev_watcher *w)
{
	if (w->pending) {
		l->pend[ABSPRI(w)][w->pending - 1].w = &pending_w;
		w->pending = 0;
	}
}

void
ev_feed_event(struct ev_loop *l, void *w, int revents)
{
	ev_watcher *w_ = w;
	int pri = ABSPRI(w_);

	if (w_->pending) {
		l->pend[pri][w_->pending - 1].events |= revents;
	} else {
		if (l->npend[pri] >= l->zpend[pri]) {
			l->zpend[pri] = l->zpend[pri] ? l->zpend[pri] * 2 : 64;
			l->pend[pri] = realloc(
				l->pend[pri], l->zpend[pri] * sizeof(**l->pend));
		}
		w_->pending = ++l->npend[pri];
		l->pend[pri][w_->pending - 1].w = w_;
		l->pend[pri][w_->pending - 1].events = revents;
	}
	l->pendingpri = NUMPRI - 1;
}

int
ev_clear_pending(struct ev_loop *l, void *w)
{
	ev_watcher *w_ = w;
	int r = 0;

	if (w_->pending) {
		r = l->pend[ABSPRI(w_)][w_->pending - 1].events;
		clear_pending(l, w_);
	}
	return r;
}

static const char*
kind_of(struct ev_loop *l, ev_watcher *w)
{
	/* only used for tracing; linear scans are fine */
	for (int i = 0; i < l->nios; i++)
		if ((void*)l->ios[i] == (void*)w) return "io";
	for (int i = 0; i < l->ntimers; i++)
		if ((void*)l->timers[i] == (void*)w) return "timer";
	for (int i = 0; i < l->nperiodics; i++)
		if ((void*)l->periodics[i] == (void*)w) return "periodic";
	for (int i = 0; i < l->nsignals; i++)
		if ((void*)l->signals[i] == (void*)w) return "signal";
	for (int i = 0; i < l->nchilds; i++)
		if ((void*)l->childs[i] == (void*)w) return "child";
	return "other";
}

static void
invoke_pending(struct ev_loop *l)
{
	l->pendingpri = NUMPRI;
	do {
		--l->pendingpri;
		while (l->npend[l->pendingpri]) {
			struct pend_s p =
				l->pend[l->pendingpri][--l->npend[l->pendingpri]];
			const char *k = NULL;

			p.w->pending = 0;
			if (p.w != &pending_w && evm_host.tr_cb) {
				k = kind_of(l, p.w);
				evm_host.tr_cb(k, p.w, p.events);
			}
			p.w->cb(l, p.w, p.events);
			if (k && evm_host.tr_cb_done) {
				evm_host.tr_cb_done(k, p.w);
			}
		}
	} while (l->pendingpri);
}


/* loop */
struct ev_loop*
ev_default_loop(unsigned int flags)
{
	(void)flags;
	if (!the_loop.inited) {
		the_loop.inited = 1;
	}
	return ev_default_loop_ptr = &the_loop;
}

struct ev_loop*
ev_loop_new(unsigned int flags)
{
	return ev_default_loop(flags);
}

void
ev_loop_destroy(struct ev_loop *l)
{
	for (int i = 0; i < NUMPRI; i++) {
		free(l->pend[i]);
		l->pend[i] = NULL;
		l->npend[i] = l->zpend[i] = 0;
	}
	l->nios = l->ntimers = l->nperiodics = l->nsignals = l->nchilds = 0;
	l->activecnt = 0;
	l->inited = 0;
	ev_default_loop_ptr = NULL;
}

void
ev_loop_fork(struct ev_loop *l)
{
	l->postfork = 1;
}

ev_tstamp
ev_now(struct ev_loop *l)
{
	return l->now;
}

void
ev_now_update(struct ev_loop *l)
{
	(void)l;
}

void
ev_break(struct ev_loop *l, int how)
{
	l->loop_done = how;
}

void
ev_ref(struct ev_loop *l)
{
	l->activecnt++;
}

void
ev_unref(struct ev_loop *l)
{
	l->activecnt--;
}

/* stable selection of the earliest time watcher, ties by start order.
 * we keep arrays in start order and scan; counts are small. */
static int
earliest_timer(struct ev_loop *l)
{
	int b = -1;
	for (int i = 0; i < l->ntimers; i++) {
		if (b < 0 || l->timers[i]->at < l->timers[b]->at) {
			b = i;
		}
	}
	return b;
}

static int
earliest_periodic(struct ev_loop *l)
{
	int b = -1;
	for (int i = 0; i < l->nperiodics; i++) {
		if (b < 0 || l->periodics[i]->at < l->periodics[b]->at) {
			b = i;
		}
	}
	return b;
}

static void
timers_reify(struct ev_loop *l)
{
	ev_watcher *rfeeds[MAXW];
	int nrf = 0;
	int b;

	while ((b = earliest_timer(l)) >= 0 && l->timers[b]->at < l->now) {
		ev_timer *w = l->timers[b];

		if (w->repeat) {
			w->at += w->repeat;
			if (w->at < l->now) {
				w->at = l->now;
			}
			/* move to the end so that equal-at ties rotate like
			 * a re-inserted heap element would */
			memmove(l->timers + b, l->timers + b + 1,
				(l->ntimers - b - 1) * sizeof(*l->timers));
			l->timers[l->ntimers - 1] = w;
		} else {
			ev_timer_stop(l, w);
		}
		if (nrf < MAXW) {
			rfeeds[nrf++] = (ev_watcher*)w;
		}
	}
	while (nrf) {
		ev_feed_event(l, rfeeds[--nrf], EV_TIMER);
	}
}

static void
periodic_recalc(struct ev_loop *l, ev_periodic *w)
{
	double interval = w->interval > 1./8192 ? w->interval : 1./8192;
	double at = w->offset + interval * (long long)((l->now - w->offset) / interval);

	while (at <= l->now) {
		double nat = at + w->interval;
		if (nat == at) {
			at = l->now;
			break;
		}
		at = nat;
	}
	w->at = at;
}

static double
wall(struct ev_loop *l)
{
	double t = evm_host.clock ? evm_host.clock() : l->now;
	return t > l->now ? t : l->now;
}

static void
periodics_reschedule(struct ev_loop *l)
{
/* libev: "adjust periodics after time jump"; every reschedule callback is
 * called with the current time, whether or not the watcher has expired */
	if (evm_host.tr_resched_all) {
		evm_host.tr_resched_all(1);
	}
	for (int i = 0; i < l->nperiodics; i++) {
		ev_periodic *w = l->periodics[i];

		if (w->reschedule_cb) {
			double ret = w->reschedule_cb(w, l->now);

			if (evm_host.tr_resched) {
				evm_host.tr_resched(w, l->now, ret);
			}
			w->at = ret;
		} else if (w->interval) {
			periodic_recalc(l, w);
		}
	}
	if (evm_host.tr_resched_all) {
		evm_host.tr_resched_all(0);
	}
}

static void
timerfd_cb(struct ev_loop *l, ev_watcher *w, int revents)
{
/* libev timerfdcb(): ev_rt_now = ev_time (); periodics_reschedule (); */
	(void)w, (void)revents;
	l->now = wall(l);
	periodics_reschedule(l);
}

static void
loop_fork(struct ev_loop *l)
{
/* libev loop_fork(): the timerfd is recreated, evtimerfd_init() calls
 * timerfdcb() directly and an event is fed to timerfd_w (EV_MINPRI), which
 * is invoked after all other callbacks of the coming iteration */
	l->postfork = 0;
	if (l->timerfd) {
		timerfd_cb(l, &l->timerfd_w, 0);
		l->timerfd_w.priority = EV_MINPRI;
		l->timerfd_w.cb = timerfd_cb;
		ev_feed_event(l, &l->timerfd_w, EV_CUSTOM);
	}
}

static void
periodics_reify(struct ev_loop *l)
{
	ev_watcher *rfeeds[MAXW];
	int nrf = 0;
	int b;

	while ((b = earliest_periodic(l)) >= 0 &&
	       l->periodics[b]->at < l->now) {
		ev_periodic *w = l->periodics[b];

		if (w->reschedule_cb) {
			double ret = w->reschedule_cb(w, l->now);

			if (evm_host.tr_resched) {
				evm_host.tr_resched(w, l->now, ret);
			}
			w->at = ret;
			if (!(ret >= l->now)) {
				/* libev: assert (("libev: ev_periodic
				 * reschedule callback returned time in the
				 * past", ev_at (w) >= ev_rt_now)); */
				if (evm_host.contract) {
					evm_host.contract("\
ev_periodic reschedule callback returned time in the past");
				}
				abort();
			}
			memmove(l->periodics + b, l->periodics + b + 1,
				(l->nperiodics - b - 1) * sizeof(*l->periodics));
			l->periodics[l->nperiodics - 1] = w;
		} else if (w->interval) {
			periodic_recalc(l, w);
		} else {
			ev_periodic_stop(l, w);
		}
		if (nrf < MAXW) {
			rfeeds[nrf++] = (ev_watcher*)w;
		}
	}
	while (nrf) {
		ev_feed_event(l, rfeeds[--nrf], EV_PERIODIC);
	}
}

static void
poll_io(struct ev_loop *l)
{
/* feed io events in a host-permuted order */
	ev_io *rdy[MAXW];
	int ev[MAXW];
	int n = 0;
	unsigned long key = evm_host.io_perm ? evm_host.io_perm(l->iter) : 0UL;

	for (int i = 0; i < l->nios; i++) {
		int r = evm_host.io_ready(l->ios[i]->fd, l->ios[i]->events);
		if (r) {
			rdy[n] = l->ios[i];
			ev[n] = r;
			n++;
		}
	}
	/* Fisher-Yates driven by an xorshift of KEY */
	for (int i = n - 1; i > 0; i--) {
		int j;
		key ^= key << 13;
		key ^= key >> 7;
		key ^= key << 17;
		j = (int)(key % (unsigned long)(i + 1));
		ev_io *t = rdy[i];
		int te = ev[i];
		rdy[i] = rdy[j], ev[i] = ev[j];
		rdy[j] = t, ev[j] = te;
	}
	for (int i = 0; i < n; i++) {
		ev_feed_event(l, rdy[i], ev[i]);
	}
}

static int
any_io_ready(struct ev_loop *l)
{
	for (int i = 0; i < l->nios; i++) {
		if (evm_host.io_ready(l->ios[i]->fd, l->ios[i]->events)) {
			return 1;
		}
	}
	return 0;
}

static void
feed_signals_and_children(struct ev_loop *l)
{
/* what pipecb()/childcb() do at EV_MAXPRI at the start of the invoke
 * phase: user signal watchers are fed (descending signal number) onto
 * their priority's stack, then children are reaped one at a time, each
 * child's watchers being invoked before the next child is reaped. */
	int sigs[64];
	int nsigs = 0;
	int sg;

	while (evm_host.next_signal && nsigs < 64 &&
	       (sg = evm_host.next_signal(l->now)) > 0) {
		sigs[nsigs++] = sg;
	}
	/* descending signal number, each signal once */
	for (int s = 255; s > 0; s--) {
		int hit = 0;
		for (int i = 0; i < nsigs; i++) {
			hit |= sigs[i] == s;
		}
		if (!hit) {
			continue;
		}
		for (int i = l->nsignals - 1; i >= 0; i--) {
			/* list head is the most recently started watcher */
			if (l->signals[i]->signum == s) {
				ev_feed_event(l, l->signals[i], EV_SIGNAL);
			}
		}
	}
	for (int pid, st; evm_host.reap && evm_host.reap(l->now, &pid, &st);) {
		/* child_reap(pid) then child_reap(0): feed in list order
		 * (most recently started first), invoked LIFO */
		for (int pass = 0; pass < 2; pass++) {
			for (int i = l->nchilds - 1; i >= 0; i--) {
				ev_child *w = l->childs[i];
				if (pass == 0 ? w->pid != pid : w->pid != 0) {
					continue;
				}
				/* child_reap(): stops and continuations go to
				 * watchers initialised with the trace flag only */
				if ((WIFSTOPPED(st) || WIFCONTINUED(st)) &&
				    !(w->flags & 1)) {
					continue;
				}
				w->priority = EV_MAXPRI;
				w->rpid = pid;
				w->rstatus = st;
				ev_feed_event(l, w, EV_CHILD);
			}
		}
		/* run them now, before reaping the next child: only the
		 * MAXPRI stack is drained here */
		while (l->npend[NUMPRI - 1]) {
			struct pend_s p =
				l->pend[NUMPRI - 1][--l->npend[NUMPRI - 1]];
			const char *k = NULL;

			p.w->pending = 0;
			if (p.w != &pending_w && evm_host.tr_cb) {
				k = kind_of(l, p.w);
				evm_host.tr_cb(k, p.w, p.events);
			}
			p.w->cb(l, p.w, p.events);
			if (k && evm_host.tr_cb_done) {
				evm_host.tr_cb_done(k, p.w);
			}
		}
	}
}

int
ev_run(struct ev_loop *l, int flags)
{
	l->depth++;
	l->loop_done = EVBREAK_CANCEL;

	do {
		double due = 1e300;
		double w;
		int b;

		if (l->postfork) {
			loop_fork(l);
		}
		/* libev: "update time to cancel out callback processing
		 * overhead" before the blocking time is computed */
		l->now = wall(l);
		if ((b = earliest_timer(l)) >= 0) {
			due = l->timers[b]->at;
		}
		if ((b = earliest_periodic(l)) >= 0 &&
		    l->periodics[b]->at < due) {
			due = l->periodics[b]->at;
		}
		w = evm_host.next_wake(l->now, due, any_io_ready(l));
		if (w < 0) {
			break;
		}
		if (w > l->now) {
			l->now = w;
		}
		l->iter++;
		if (evm_host.tr_iter) {
			evm_host.tr_iter(l->iter, l->now);
		}

		if (l->jumped) {
			/* libev time_update(): "time jump detected", measured:
			 * one periodics_reschedule() before anything else of
			 * the iteration, overdue expiries are not delivered */
			l->jumped = 0;
			periodics_reschedule(l);
		}
		poll_io(l);
		timers_reify(l);
		periodics_reify(l);
		feed_signals_and_children(l);
		invoke_pending(l);
	} while (l->activecnt && !l->loop_done &&
		 !(flags & (EVRUN_ONCE | EVRUN_NOWAIT)));

	if (l->loop_done == EVBREAK_ONE) {
		l->loop_done = EVBREAK_CANCEL;
	}
	l->depth--;
	return l->activecnt;
}


/* watchers */
#define DEL(arr, n, w)						\
	for (int i_ = 0; i_ < (n); i_++) {			\
		if ((void*)(arr)[i_] == (void*)(w)) {		\
			memmove((arr) + i_, (arr) + i_ + 1,	\
				((n) - i_ - 1) * sizeof(*(arr)));	\
			(n)--;					\
			break;					\
		}						\
	}

void
ev_io_start(struct ev_loop *l, ev_io *w)
{
	if (w->active) {
		return;
	}
	ev_start_(l, (ev_watcher*)w);
	l->ios[l->nios++] = w;
	if (evm_host.tr_start) evm_host.tr_start("io", w);
}

void
ev_io_stop(struct ev_loop *l, ev_io *w)
{
	clear_pending(l, (ev_watcher*)w);
	if (!w->active) {
		return;
	}
	DEL(l->ios, l->nios, w);
	ev_stop_(l, (ev_watcher*)w);
	if (evm_host.tr_stop) evm_host.tr_stop("io", w);
}

void
ev_timer_start(struct ev_loop *l, ev_timer *w)
{
	if (w->active) {
		return;
	}
	w->at += l->now;
	ev_start_(l, (ev_watcher*)w);
	l->timers[l->ntimers++] = w;
	if (evm_host.tr_start) evm_host.tr_start("timer", w);
}

void
ev_timer_stop(struct ev_loop *l, ev_timer *w)
{
	clear_pending(l, (ev_watcher*)w);
	if (!w->active) {
		return;
	}
	DEL(l->timers, l->ntimers, w);
	w->at -= l->now;
	ev_stop_(l, (ev_watcher*)w);
	if (evm_host.tr_stop) evm_host.tr_stop("timer", w);
}

void
ev_timer_again(struct ev_loop *l, ev_timer *w)
{
	clear_pending(l, (ev_watcher*)w);
	if (w->active) {
		if (w->repeat) {
			w->at = l->now + w->repeat;
		} else {
			ev_timer_stop(l, w);
		}
	} else if (w->repeat) {
		w->at = w->repeat;
		ev_timer_start(l, w);
	}
}

void
ev_periodic_start(struct ev_loop *l, ev_periodic *w)
{
	if (w->active) {
		return;
	}
	l->timerfd = 1;
	if (w->reschedule_cb) {
		double ret = w->reschedule_cb(w, l->now);
		if (evm_host.tr_resched) {
			evm_host.tr_resched(w, l->now, ret);
		}
		w->at = ret;
	} else if (w->interval) {
		periodic_recalc(l, w);
	} else {
		w->at = w->offset;
	}
	ev_start_(l, (ev_watcher*)w);
	l->periodics[l->nperiodics++] = w;
	if (evm_host.tr_start) evm_host.tr_start("periodic", w);
}

void
ev_periodic_stop(struct ev_loop *l, ev_periodic *w)
{
	clear_pending(l, (ev_watcher*)w);
	if (!w->active) {
		return;
	}
	DEL(l->periodics, l->nperiodics, w);
	ev_stop_(l, (ev_watcher*)w);
	if (evm_host.tr_stop) evm_host.tr_stop("periodic", w);
}

void
ev_periodic_again(struct ev_loop *l, ev_periodic *w)
{
	ev_periodic_stop(l, w);
	ev_periodic_start(l, w);
}

void
ev_signal_start(struct ev_loop *l, ev_signal *w)
{
	if (w->active) {
		return;
	}
	ev_start_(l, (ev_watcher*)w);
	l->signals[l->nsignals++] = w;
	if (evm_host.tr_start) evm_host.tr_start("signal", w);
}

void
ev_signal_stop(struct ev_loop *l, ev_signal *w)
{
	clear_pending(l, (ev_watcher*)w);
	if (!w->active) {
		return;
	}
	DEL(l->signals, l->nsignals, w);
	ev_stop_(l, (ev_watcher*)w);
	if (evm_host.tr_stop) evm_host.tr_stop("signal", w);
}

void
ev_child_start(struct ev_loop *l, ev_child *w)
{
	if (w->active) {
		return;
	}
	ev_start_(l, (ev_watcher*)w);
	l->childs[l->nchilds++] = w;
	if (evm_host.tr_start) evm_host.tr_start("child", w);
}

void
ev_child_stop(struct ev_loop *l, ev_child *w)
{
	clear_pending(l, (ev_watcher*)w);
	if (!w->active) {
		return;
	}
	DEL(l->childs, l->nchilds, w);
	ev_stop_(l, (ev_watcher*)w);
	if (evm_host.tr_stop) evm_host.tr_stop("child", w);
}

/* evmodel.c ends here */
