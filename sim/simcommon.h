/* simcommon.h -- bits shared by the simulators: history writer, hashing,
 * script tokeniser.  Header-only, everything static. */
#if !defined INCLUDED_simcommon_h_
#define INCLUDED_simcommon_h_
#include <stdint.h>
#include <stddef.h>
#include <stdio.h>
#include <stdlib.h>
#include <string.h>
#include <stdarg.h>
#include <unistd.h>
#include <errno.h>

extern ssize_t __real_write(int, const void*, size_t);

/* ---- history: one JSON object per line, written with write(2) at once */
static int hist_fd = -1;
static unsigned long hist_seq;
static char hist_buf[1 << 20];
static size_t hist_bi;
static const char *hist_rundir;
static size_t hist_rundirz;

static void
h_raw(const char *s, size_t z)
{
	if (hist_bi + z >= sizeof(hist_buf)) {
		z = sizeof(hist_buf) - hist_bi - 1U;
	}
	memcpy(hist_buf + hist_bi, s, z);
	hist_bi += z;
}

static void
h_printf(const char *fmt, ...)
{
	va_list ap;
	int n;

	va_start(ap, fmt);
	n = vsnprintf(hist_buf + hist_bi, sizeof(hist_buf) - hist_bi, fmt, ap);
	va_end(ap);
	if (n > 0) {
		hist_bi += (size_t)n < sizeof(hist_buf) - hist_bi
			? (size_t)n : sizeof(hist_buf) - hist_bi - 1U;
	}
}

static void
h_begin(const char *kind, double t)
{
	hist_bi = 0U;
	/* %.17g round-trips a double exactly: the oracle must see the very
	 * same loop time the daemon saw (strict < against integral seconds) */
	h_printf("{\"s\":%lu,\"t\":%.17g,\"k\":\"%s\"", ++hist_seq, t, kind);
}

static void
h_str(const char *key, const char *s, ssize_t z)
{
/* JSON string with \u escapes; the run directory is canonicalised to $R */
	static const char hx[] = "0123456789abcdef";

	if (s == NULL) {
		h_printf(",\"%s\":null", key);
		return;
	}
	if (z < 0) {
		z = strlen(s);
	}
	h_printf(",\"%s\":\"", key);
	for (ssize_t i = 0; i < z; i++) {
		unsigned char c = s[i];

		if (hist_rundirz && (size_t)(z - i) >= hist_rundirz &&
		    !memcmp(s + i, hist_rundir, hist_rundirz)) {
			h_raw("$R", 2U);
			i += hist_rundirz - 1;
			continue;
		}
		if (c == '"' || c == '\\') {
			char e[2] = {'\\', c};
			h_raw(e, 2U);
		} else if (c == '\n') {
			h_raw("\\n", 2U);
		} else if (c < 0x20 || c >= 0x7f) {
			char e[6] = {'\\', 'u', '0', '0', hx[c >> 4], hx[c & 15]};
			h_raw(e, 6U);
		} else {
			h_raw((char*)&c, 1U);
		}
	}
	h_raw("\"", 1U);
}

static void
h_int(const char *key, long v)
{
	h_printf(",\"%s\":%ld", key, v);
}

static void
h_dbl(const char *key, double v)
{
	if (v > 1e29) {
		h_printf(",\"%s\":1e30", key);
	} else {
		h_printf(",\"%s\":%.17g", key, v);
	}
}

static void
h_end(void)
{
	h_raw("}\n", 2U);
	if (hist_fd >= 0) {
		size_t o = 0U;
		while (o < hist_bi) {
			ssize_t n = __real_write(hist_fd, hist_buf + o, hist_bi - o);
			if (n <= 0) {
				break;
			}
			o += n;
		}
	}
	hist_bi = 0U;
}

/* ---- hashing: every "random" choice of the simulators is a pure function
 * of (seed, stable key), never of the number of draws made so far */
static inline uint64_t
mix64(uint64_t x)
{
	x += 0x9e3779b97f4a7c15ULL;
	x = (x ^ (x >> 30)) * 0xbf58476d1ce4e5b9ULL;
	x = (x ^ (x >> 27)) * 0x94d049bb133111ebULL;
	return x ^ (x >> 31);
}

static inline uint64_t
hash3(uint64_t seed, uint64_t a, uint64_t b)
{
	return mix64(mix64(mix64(seed) ^ a) ^ (b * 0x2545f4914f6cdd1dULL));
}

static inline double
u01(uint64_t h)
{
	return (double)(h >> 11) * (1.0 / 9007199254740992.0);
}

/* ---- hex */
static inline int
hexval(int c)
{
	return c >= '0' && c <= '9' ? c - '0'
		: c >= 'a' && c <= 'f' ? c - 'a' + 10
		: c >= 'A' && c <= 'F' ? c - 'A' + 10 : -1;
}

static size_t
unhex(char *dst, const char *src)
{
	size_t n = 0U;

	for (; hexval(src[0]) >= 0 && hexval(src[1]) >= 0; src += 2) {
		dst[n++] = (char)(hexval(src[0]) << 4 | hexval(src[1]));
	}
	return n;
}

static int
errno_of(const char *s)
{
	static const struct {
		const char *n;
		int e;
	} tab[] = {
		{"ENOSPC", ENOSPC}, {"EIO", EIO}, {"EMFILE", EMFILE},
		{"ENFILE", ENFILE}, {"EINTR", EINTR}, {"EACCES", EACCES},
		{"ENOMEM", ENOMEM}, {"EAGAIN", EAGAIN}, {"EDQUOT", EDQUOT},
		{"EROFS", EROFS}, {"ENOENT", ENOENT}, {"EPERM", EPERM},
	};
	for (size_t i = 0U; i < sizeof(tab) / sizeof(*tab); i++) {
		if (!strcmp(tab[i].n, s)) {
			return tab[i].e;
		}
	}
	return atoi(s) ?: EIO;
}

/* What an uninitialised variable of the SUT holds is whatever the serving
 * parent left on the stack, i.e. it depends on which runs this process saw
 * before: one more source of nondeterminism the simulator has to own.  The
 * stack below the SUT's entry point is filled with one pattern (positive as
 * an int) before every run. */
static void __attribute__((noinline, unused))
scrub_stack(void)
{
	volatile char buf[1U << 18U];

	for (size_t i = 0U; i < sizeof(buf); i++) {
		buf[i] = 0x5a;
	}
	__asm__ volatile("" ::: "memory");
}

/* Address space layout randomisation is one more source of run-to-run
 * differences (what a stale or uninitialised word holds, allocation
 * addresses that find their way into hashes or comparisons): switch it off
 * for the simulator process and everything it forks. */
#include <sys/personality.h>
static void __attribute__((unused))
no_aslr(char **argv)
{
	const int p = personality(0xffffffffUL);

	if (p >= 0 && !(p & ADDR_NO_RANDOMIZE) && getenv("SIM_NOASLR_TRIED") == NULL) {
		setenv("SIM_NOASLR_TRIED", "1", 1);
		if (personality((unsigned long)p | ADDR_NO_RANDOMIZE) >= 0) {
			execv("/proc/self/exe", argv);
		}
	}
}

#endif	/* INCLUDED_simcommon_h_ */
