/* simx.c -- the executor world: echsx.c (unmodified, main() included) under
 * the libev model, a virtual alarm clock and a scripted job actor that
 * writes to the very descriptors echsx planned for the job.
 *
 * usage: simx run SCRIPT HISTORY
 *        simx serve
 *
 * One forked process per run (echsx keeps state in statics).  DESIGN.md 3.3 */
#include <stdlib.h>
#include <stdio.h>
#include <string.h>
#include <stdint.h>
#include <stdarg.h>
#include <errno.h>
#include <unistd.h>
#include <fcntl.h>
#include <signal.h>
#include <poll.h>
#include <pwd.h>
#include <grp.h>
#include <spawn.h>
#include <time.h>
#include <sys/types.h>
#include <sys/stat.h>
#include <sys/wait.h>
#include <sys/resource.h>
#include <sys/sendfile.h>
#include "evmodel.h"
#include "simcommon.h"

extern ssize_t __real_read(int, void*, size_t);
extern ssize_t __real_sendfile(int, int, off_t*, size_t);
extern ssize_t __real_splice(int, void*, int, void*, size_t, unsigned int);
extern int __real_open(const char*, int, ...);
extern int __real_close(int);
extern int __real_unlink(const char*);
extern int __real_chdir(const char*);
extern int __real_mkstemp(char*);
extern int __real_pipe(int[2]);
extern unsigned int __real_alarm(unsigned int);
extern pid_t __real_waitpid(pid_t, int*, int);

#define MAXSTEP	4096

struct step_s {
	char k;		/* w write, s sleep, c close, x exit, k killed by signal */
	int fd;		/* 1 or 2 */
	long n;		/* bytes / status / signal */
	double dt;
};

static struct {
	uint64_t seed;
	char rundir[512];
	double start;
	int argc;
	char *argv[8];
	char *stdin_data;
	size_t stdin_z;
	int rfrag[64];
	int nrfrag;
	struct step_s steps[MAXSTEP];
	int nsteps;
	int exit_lag;		/* iterations between actor exit and notification */
	int splice_max;		/* cap of a single splice (0 = none) */
	int sendfile_max;	/* cap of a single sendfile (0 = none) */
	int eintr_writes;	/* first N write()s to files fail with EINTR */
	double spawn_stall;	/* virtual seconds lost between alarm and spawn */
	double prep_stall;	/* virtual seconds lost before the job is spawned
				 * (slow open/mkstemp/chdir in prep_task) */
	int spawn_fail;		/* errno for the job spawn, 0 = none */
	int mail_fail;		/* errno for the sendmail spawn */
	double mail_delay;	/* virtual seconds a (synchronous) delivery takes */
	double linger;		/* a silent grandchild keeps the job's descriptors
				 * open this long after the job itself exited */
	int open_fail_out;	/* OFILE cannot be opened */
	uid_t uids[16];
	gid_t gids[16];
	int nusr;
} X;

/* virtual clock */
static double vt;
static double alarm_at = -1.;
static void (*alarm_handler)(int);

/* the job actor */
static struct {
	int alive;
	int pid;
	int fd[3];		/* its stdin, stdout, stderr (dups) */
	int stepi;
	long off[3];		/* bytes written so far per stream */
	long steprem;		/* rest of the current write step */
	double wake;		/* sleeping until */
	int exited;
	int status;
	int exit_iter;
	int reaped;
	double t_exit;
	int killed_by;
	int linger;		/* descriptors outlive the process */
	double linger_until;
} A;

/* sendmail recorder */
static struct {
	int active;
	int wfd;		/* write end echsx holds */
	char *buf;
	size_t z, cap;
	int pid;
	int spawned;
	int handed_over;	/* echsx closed its end: the message is complete */
	int killed;		/* signal that hit the mailer */
	int reaped;
} M;

static int last_pipe[2] = {-1, -1};
static struct {
	int fd, newfd;
} dups[16];
static int ndups;
static int stdin_off;
static int nread;
static int nwrites;
static int njobspawn;

static char*
remap(const char *p, char *buf, size_t bz)
{
/* absolute paths of the job live under the run directory */
	if (p[0] == '/' && strncmp(p, X.rundir, strlen(X.rundir)) &&
	    strcmp(p, "/dev/null") && strncmp(p, "/proc/", 6U) &&
	    /* the time zone database is the machine's */
	    strncmp(p, "/usr/share/zoneinfo", 19U)) {
		snprintf(buf, bz, "%s/root%s", X.rundir, p);
		return buf;
	}
	snprintf(buf, bz, "%s", p);
	return buf;
}


/* ------------------------------------------------------------ clock */
time_t
__wrap_time(time_t *t)
{
	time_t r = (time_t)vt;
	if (t) {
		*t = r;
	}
	return r;
}

int
__wrap_clock_gettime(clockid_t c, struct timespec *ts)
{
	(void)c;
	ts->tv_sec = (time_t)vt;
	ts->tv_nsec = (long)((vt - (double)(time_t)vt) * 1e9);
	return 0;
}

unsigned int
__wrap_alarm(unsigned int s)
{
	unsigned int rem = alarm_at > vt ? (unsigned int)(alarm_at - vt) : 0U;

	h_begin("alarm", vt);
	h_int("sec", s);
	h_end();
	alarm_at = s ? vt + (double)s : -1.;
	return rem;
}

int
__wrap_sigaction(int sig, const struct sigaction *sa, struct sigaction *old)
{
	if (sig == SIGALRM) {
		if (old) {
			memset(old, 0, sizeof(*old));
			old->sa_handler = alarm_handler;
		}
		if (sa) {
			alarm_handler = sa->sa_handler == SIG_DFL ||
				sa->sa_handler == SIG_IGN ? NULL : sa->sa_handler;
		}
		return 0;
	}
	return 0;
}

int
__wrap_kill(pid_t pid, int sig)
{
	h_begin("kill", vt);
	h_int("pid", pid);
	h_int("sig", sig);
	h_int("jobpid", A.pid);
	h_int("jobalive", A.alive && !A.exited);
	h_end();
	if (pid == A.pid && A.alive && !A.exited) {
		/* the job dies of it */
		A.exited = 1;
		A.killed_by = sig;
		A.status = sig;
		A.t_exit = vt;
		A.exit_iter = (int)evm_iter();
		for (int i = 0; i < 3; i++) {
			if (A.fd[i] >= 0) {
				__real_close(A.fd[i]);
				A.fd[i] = -1;
			}
		}
		return 0;
	}
	if (pid <= 0) {
		/* never signal process groups */
		return 0;
	}
	if (pid == M.pid && M.spawned && !M.reaped) {
		/* the mailer dies of it, whatever it held is lost */
		M.killed = sig;
		return 0;
	}
	errno = ESRCH;
	return -1;
}

int
__wrap_getrusage(int who, struct rusage *ru)
{
	(void)who;
	memset(ru, 0, sizeof(*ru));
	ru->ru_maxrss = 1234;
	return 0;
}


/* ------------------------------------------------------------ identity */
int
__wrap_setuid(uid_t u)
{
	h_begin("setuid", vt);
	h_int("uid", u);
	h_end();
	return 0;
}

int
__wrap_setgid(gid_t g)
{
	h_begin("setgid", vt);
	h_int("gid", g);
	h_end();
	return 0;
}

struct passwd*
__wrap_getpwuid(uid_t u)
{
	static struct passwd pw;
	static char name[32], home[600];

	for (int i = 0; i < X.nusr; i++) {
		if (X.uids[i] == u) {
			snprintf(name, sizeof(name), "u%u", u);
			snprintf(home, sizeof(home), "/home/u%u", u);
			pw = (struct passwd){.pw_name = name, .pw_uid = u,
				.pw_gid = X.gids[i], .pw_dir = home,
				.pw_shell = "/bin/sh", .pw_passwd = "x",
				.pw_gecos = name};
			return &pw;
		}
	}
	return NULL;
}

struct passwd*
__wrap_getpwnam(const char *n)
{
	if (n[0] == 'u') {
		return __wrap_getpwuid(atoi(n + 1));
	}
	return NULL;
}

struct group*
__wrap_getgrnam(const char *n)
{
	static struct group gr;
	static char name[32];

	if (n[0] == 'g') {
		snprintf(name, sizeof(name), "%s", n);
		gr = (struct group){.gr_name = name, .gr_gid = atoi(n + 1)};
		return &gr;
	}
	return NULL;
}


/* ------------------------------------------------------------ files */
int
__wrap_chdir(const char *p)
{
	char b[1024];
	int rc = __real_chdir(remap(p, b, sizeof(b)));

	h_begin("chdir", vt);
	h_str("path", p, -1);
	h_int("rc", rc);
	h_end();
	return rc;
}

int
__wrap_open(const char *p, int fl, ...)
{
	char b[1024];
	mode_t m = 0;
	int fd;

	if (fl & O_CREAT) {
		va_list ap;
		va_start(ap, fl);
		m = va_arg(ap, mode_t);
		va_end(ap);
	}
	if (X.open_fail_out && (fl & O_CREAT) && strstr(p, "FAILOPEN")) {
		errno = EACCES;
		return -1;
	}
	fd = __real_open(remap(p, b, sizeof(b)), fl, m);
	return fd;
}

int
__wrap_mkstemp(char *tmpl)
{
	char b[1024];
	int fd;
	size_t z = strlen(tmpl);

	remap(tmpl, b, sizeof(b));
	fd = __real_mkstemp(b);
	if (fd >= 0) {
		/* hand the generated name back in the caller's template */
		memcpy(tmpl + z - 8U, b + strlen(b) - 8U, 8U);
	}
	h_begin("mkstemp", vt);
	h_int("ok", fd >= 0);
	h_end();
	return fd;
}

int
__wrap_unlink(const char *p)
{
	char b[1024];
	int rc = __real_unlink(remap(p, b, sizeof(b)));

	h_begin("unlink", vt);
	h_int("rc", rc);
	h_int("tmp", !strncmp(p, "/tmp/echs", 9U));
	h_end();
	return rc;
}

ssize_t
__wrap_read(int fd, void *buf, size_t len)
{
	if (fd == STDIN_FILENO) {
		size_t rest = X.stdin_z - stdin_off;
		size_t n = len;

		if (X.nrfrag) {
			int f = X.rfrag[nread++ % X.nrfrag];
			if (f > 0 && (size_t)f < n) {
				n = f;
			}
		}
		if (n > rest) {
			n = rest;
		}
		memcpy(buf, X.stdin_data + stdin_off, n);
		stdin_off += n;
		return n;
	}
	return __real_read(fd, buf, len);
}

static void
mail_put(const void *p, size_t n)
{
	if (M.z + n + 1U > M.cap) {
		M.cap = (M.z + n + 1U) * 2U;
		M.buf = realloc(M.buf, M.cap);
	}
	memcpy(M.buf + M.z, p, n);
	M.z += n;
}

ssize_t
__wrap_write(int fd, const void *buf, size_t len)
{
	if (M.active && fd == M.wfd) {
		/* sendmail's stdin: recorded, never blocks */
		mail_put(buf, len);
		return len;
	}
	if (fd > 2 && X.eintr_writes > 0 && nwrites++ < X.eintr_writes) {
		errno = EINTR;
		return -1;
	}
	return __real_write(fd, buf, len);
}

ssize_t
__wrap_sendfile(int ofd, int ifd, off_t *off, size_t cnt)
{
	if (M.active && ofd == M.wfd) {
		static char b[65536];
		ssize_t n;
		size_t want = cnt < sizeof(b) ? cnt : sizeof(b);

		if (X.sendfile_max && want > (size_t)X.sendfile_max) {
			want = X.sendfile_max;
		}
		if (off) {
			n = pread(ifd, b, want, *off);
			if (n > 0) {
				*off += n;
			}
		} else {
			n = __real_read(ifd, b, want);
		}
		if (n > 0) {
			mail_put(b, n);
		}
		return n;
	}
	if (X.sendfile_max && cnt > (size_t)X.sendfile_max) {
		cnt = X.sendfile_max;
	}
	return __real_sendfile(ofd, ifd, off, cnt);
}

ssize_t
__wrap_splice(int ifd, void *ioff, int ofd, void *ooff, size_t len, unsigned int fl)
{
	if (X.splice_max && len > (size_t)X.splice_max) {
		len = X.splice_max;
	}
	if (len > (1U << 20)) {
		len = 1U << 20;
	}
	return __real_splice(ifd, ioff, ofd, ooff, len, fl | 2U/*NONBLOCK*/);
}

int
__wrap_pipe(int p[2])
{
	int rc = __real_pipe(p);
	if (rc == 0) {
		last_pipe[0] = p[0], last_pipe[1] = p[1];
	}
	return rc;
}

int
__wrap_close(int fd)
{
	if (M.active && fd == M.wfd) {
		char fn[700];
		int mfd_;

		M.active = 0;
		/* the mail goes to a file of its own, it can be megabytes */
		snprintf(fn, sizeof(fn), "%s/mail.bin", X.rundir);
		if ((mfd_ = __real_open(fn, O_WRONLY | O_CREAT | O_TRUNC, 0644)) >= 0) {
			size_t o = 0U;
			while (o < M.z) {
				ssize_t n = __real_write(mfd_, M.buf + o, M.z - o);
				if (n <= 0) {
					break;
				}
				o += n;
			}
			__real_close(mfd_);
		}
		M.handed_over = 1;
	}
	return __real_close(fd);
}


/* ------------------------------------------------------------ spawning */
extern int __real_posix_spawn_file_actions_adddup2(
	posix_spawn_file_actions_t*, int, int);

int
__wrap_posix_spawn_file_actions_adddup2(
	posix_spawn_file_actions_t *fa, int fd, int newfd)
{
	if (ndups < 16) {
		dups[ndups].fd = fd;
		dups[ndups].newfd = newfd;
		ndups++;
	}
	return __real_posix_spawn_file_actions_adddup2(fa, fd, newfd);
}

static int
fd_for(int newfd)
{
	for (int i = ndups - 1; i >= 0; i--) {
		if (dups[i].newfd == newfd) {
			return dups[i].fd;
		}
	}
	return -1;
}

static const char*
fd_ident(int fd, char *buf, size_t bz)
{
/* what FD refers to, by its /proc link, canonicalised */
	char ln[64], tgt[600];
	ssize_t n;

	snprintf(ln, sizeof(ln), "/proc/self/fd/%d", fd);
	if (fd < 0 || (n = readlink(ln, tgt, sizeof(tgt) - 1U)) < 0) {
		snprintf(buf, bz, "none");
		return buf;
	}
	tgt[n] = '\0';
	if (!strncmp(tgt, "pipe:", 5U)) {
		snprintf(buf, bz, "pipe");
	} else {
		const char *q = strstr(tgt, "/root/");
		snprintf(buf, bz, "%s", q ? q + 5 : tgt);
		if (!strncmp(buf, "/tmp/echs", 9U)) {
			snprintf(buf, bz, "tmpfile");
		}
	}
	return buf;
}

int
__wrap_posix_spawn(pid_t *pid, const char *path,
		   const posix_spawn_file_actions_t *fa,
		   const posix_spawnattr_t *at,
		   char *const argv[], char *const envp[])
{
	char cwd[1024], id[600];
	mode_t um;

	(void)fa, (void)at, (void)envp;
	if (!strcmp(path, "/usr/sbin/sendmail")) {
		int rfd = fd_for(0);

		ndups = 0;
		if (X.mail_fail) {
			h_begin("mailspawnfail", vt);
			h_end();
			return X.mail_fail;
		}
		(void)rfd;
		M.active = 1;
		M.spawned = 1;
		M.wfd = last_pipe[1];
		M.z = 0U;
		M.pid = 777;
		*pid = M.pid;
		h_begin("mailspawn", vt);
		h_end();
		return 0;
	}
	/* the job */
	if (X.prep_stall > 0.) {
		/* the executor was held up getting here; a deadline that
		 * expires meanwhile is delivered now, before there is a job */
		vt += X.prep_stall;
		if (alarm_at >= 0. && vt >= alarm_at && alarm_handler) {
			void (*h)(int) = alarm_handler;

			alarm_at = -1.;
			h_begin("alarmfire", vt);
			h_str("during", "before the job is spawned", -1);
			h_end();
			h(SIGALRM);
		}
	}
	njobspawn++;
	if (X.spawn_fail) {
		ndups = 0;
		/* posix_spawn() returns the error number and leaves *pid alone */
		h_begin("jobspawnfail", vt);
		h_end();
		return X.spawn_fail;
	}
	memset(&A, 0, sizeof(A));
	A.alive = 1;
	A.pid = 4242;
	for (int i = 0; i < 3; i++) {
		int fd = fd_for(i);
		A.fd[i] = fd >= 0 ? dup(fd) : -1;
		if (A.fd[i] >= 0 && i) {
			fcntl(A.fd[i], F_SETFL, fcntl(A.fd[i], F_GETFL) | O_NONBLOCK);
		}
	}
	if (getcwd(cwd, sizeof(cwd)) == NULL) {
		cwd[0] = '\0';
	}
	um = umask(0);
	(void)umask(um);
	h_begin("jobspawn", vt);
	h_str("path", path, -1);
	for (int i = 0; argv[i] && i < 4; i++) {
		char k[8];
		snprintf(k, sizeof(k), "a%d", i);
		h_str(k, argv[i], -1);
	}
	{
		const char *q = strstr(cwd, "/root/");
		h_str("cwd", q ? q + 5 : (strstr(cwd, "/root") ? "/" : cwd), -1);
	}
	h_int("umask", um);
	h_str("in", fd_ident(A.fd[0], id, sizeof(id)), -1);
	h_str("out", fd_ident(A.fd[1], id, sizeof(id)), -1);
	h_str("err", fd_ident(A.fd[2], id, sizeof(id)), -1);
	h_int("n", njobspawn);
	h_end();
	ndups = 0;
	*pid = A.pid;
	/* time lost before the job gets going */
	vt += X.spawn_stall;
	return 0;
}

pid_t
__wrap_waitpid(pid_t pid, int *st, int fl)
{
	(void)fl;
	if (pid == M.pid && M.spawned) {
		/* a synchronous delivery takes its time; signals interrupt
		 * the wait as they would in reality */
		double done = vt + X.mail_delay;

		if (alarm_at >= 0. && alarm_at <= done && alarm_handler) {
			void (*h)(int) = alarm_handler;

			vt = alarm_at > vt ? alarm_at : vt;
			alarm_at = -1.;
			h_begin("alarmfire", vt);
			h_str("during", "mail delivery", -1);
			h_end();
			h(SIGALRM);
		}
		if (M.killed) {
			h_begin("mailerkilled", vt);
			h_int("sig", M.killed);
			h_int("bytes", M.z);
			h_end();
		} else {
			vt = done;
			if (M.handed_over) {
				h_begin("mail", vt);
				h_int("bytes", M.z);
				h_end();
			}
		}
		M.reaped = 1;
		if (st) {
			*st = M.killed ? M.killed : 0;
		}
		return pid;
	}
	errno = ECHILD;
	return -1;
}


/* ------------------------------------------------------------ the actor */
static void
pat(char *buf, size_t n, long off, int which)
{
/* position coded: stdout lowercase, stderr uppercase */
	for (size_t i = 0; i < n; i++) {
		long o = off + (long)i;
		buf[i] = (char)((which == 1 ? 'a' : 'A') + (o % 26));
		if (o % 61 == 60) {
			buf[i] = '\n';
		}
	}
}

static void
actor_closefds(void)
{
	for (int i = 0; i < 3; i++) {
		if (A.fd[i] >= 0) {
			__real_close(A.fd[i]);
			A.fd[i] = -1;
		}
	}
}

static void
actor_exit(int status, int sig)
{
	A.exited = 1;
	A.status = sig ? sig : (status & 0xff) << 8;
	A.killed_by = sig;
	A.t_exit = vt;
	A.exit_iter = (int)evm_iter();
	if (X.linger > 0.) {
		/* a grandchild that writes nothing holds them open */
		A.linger = 1;
		A.linger_until = vt + X.linger;
		h_begin("linger", vt);
		h_dbl("until", A.linger_until);
		h_end();
	} else {
		actor_closefds();
	}
	h_begin("jobexit", vt);
	h_int("status", A.status);
	h_int("out", A.off[1]);
	h_int("err", A.off[2]);
	h_end();
}

/* run the actor until it blocks (pipe full), sleeps or is gone;
 * returns 1 if it made progress */
static int
actor_run(int maxsteps)
{
	static char buf[65536];
	int progress = 0;

	if (A.alive && A.exited && A.linger && vt >= A.linger_until) {
		/* the grandchild is gone too: end of file at last */
		A.linger = 0;
		actor_closefds();
		h_begin("lingerend", vt);
		h_end();
		return 1;
	}
	while (A.alive && !A.exited && maxsteps-- > 0) {
		struct step_s *s;

		if (A.wake > vt) {
			break;
		}
		if (A.stepi >= X.nsteps) {
			actor_exit(0, 0);
			progress = 1;
			break;
		}
		s = X.steps + A.stepi;
		switch (s->k) {
		case 'w': {
			long rem = A.steprem ? A.steprem : s->n;
			int fd = A.fd[s->fd];

			while (rem > 0) {
				size_t n = rem < (long)sizeof(buf) ? (size_t)rem : sizeof(buf);
				ssize_t w;

				if (fd < 0) {
					/* closed by the script: as if EBADF */
					rem = 0;
					break;
				}
				pat(buf, n, A.off[s->fd], s->fd);
				w = __real_write(fd, buf, n);
				if (w > 0) {
					A.off[s->fd] += w;
					rem -= w;
					progress = 1;
				} else if (w < 0 && (errno == EAGAIN || errno == EWOULDBLOCK)) {
					break;
				} else {
					/* EPIPE and friends: give up on this step */
					rem = 0;
					break;
				}
			}
			A.steprem = rem;
			if (rem > 0) {
				/* blocked on a full pipe */
				return progress;
			}
			A.stepi++;
			break;
		}
		case 's':
			A.wake = vt + s->dt;
			A.stepi++;
			progress = 1;
			break;
		case 'c':
			if (A.fd[s->fd] >= 0) {
				__real_close(A.fd[s->fd]);
				A.fd[s->fd] = -1;
			}
			A.stepi++;
			progress = 1;
			break;
		case 'x':
			actor_exit((int)s->n, 0);
			progress = 1;
			break;
		case 'k':
			actor_exit(0, (int)s->n);
			progress = 1;
			break;
		default:
			A.stepi++;
			break;
		}
	}
	return progress;
}


/* ------------------------------------------------------------ host */
static double
host_next_wake(double now, double due, int ioready)
{
	int burst;

	(void)due;
	__real_alarm(20);
	if (evm_iter() > 200000UL) {
		h_begin("iter-cap", vt);
		h_end();
		_exit(97);
	}
	/* how many actor steps run before the executor polls again */
	burst = 1 + (int)(hash3(X.seed, evm_iter(), 0x51) % 4U);
	(void)actor_run(burst);

	if (!ioready && A.alive && !A.exited && A.wake > vt) {
		/* everybody sleeps: jump to what comes first */
		double t = A.wake;
		if (alarm_at >= 0. && alarm_at < t) {
			t = alarm_at > vt ? alarm_at : vt;
		}
		vt = t;
	} else if (!ioready && A.alive && A.exited && A.reaped && A.linger) {
		/* an executor waiting for end of file gets it when the
		 * grandchild goes, or its alarm first */
		double t = A.linger_until;
		if (alarm_at >= 0. && alarm_at < t) {
			t = alarm_at > vt ? alarm_at : vt;
		}
		if (t > vt) {
			vt = t;
		}
	} else if (!ioready && A.alive && A.exited && A.reaped) {
		/* nothing left to wait for */
		;
	}
	/* the alarm clock */
	if (alarm_at >= 0. && vt >= alarm_at) {
		void (*h)(int) = alarm_handler;

		alarm_at = -1.;
		h_begin("alarmfire", vt);
		h_int("handler", h != NULL);
		h_end();
		if (h != NULL) {
			h(SIGALRM);
		} else {
			/* default action: echsx itself dies */
			h_begin("sigalrm-default", vt);
			h_end();
			_exit(96);
		}
	}
	vt += 0.0001;
	(void)now;
	return vt;
}

static int
host_io_ready(int fd, int events)
{
	struct pollfd p = {.fd = fd, .events = POLLIN};

	(void)events;
	return poll(&p, 1, 0) > 0 ? EV_READ : 0;
}

static int
host_reap(double w, int *pid, int *st)
{
	(void)w;
	if (A.alive && A.exited && !A.reaped &&
	    (int)evm_iter() >= A.exit_iter + X.exit_lag) {
		A.reaped = 1;
		*pid = A.pid;
		*st = A.status;
		h_begin("reap", vt);
		h_int("status", A.status);
		h_end();
		return 1;
	}
	return 0;
}

static unsigned long
host_io_perm(unsigned long it)
{
	return hash3(X.seed, it, 0x52);
}

static void
host_contract(const char *what)
{
	h_begin("contract", vt);
	h_str("what", what, -1);
	h_end();
}


/* ------------------------------------------------------------ the SUT */
#define main	echsx_main
#include "echsx.c"
#undef main


/* ------------------------------------------------------------ driver */
static int
load(const char *fn)
{
	FILE *f = fopen(fn, "r");
	char *line = NULL;
	size_t lz = 0U;
	ssize_t n;

	if (f == NULL) {
		return -1;
	}
	memset(&X, 0, sizeof(X));
	X.argv[X.argc++] = strdup("echsx");
	while ((n = getline(&line, &lz, f)) > 0) {
		char *tok[8];
		int nt = 0;
		char *sv = NULL;

		if (line[n - 1] == '\n') {
			line[--n] = '\0';
		}
		for (char *t = strtok_r(line, " ", &sv); t && nt < 8;
		     t = strtok_r(NULL, " ", &sv)) {
			tok[nt++] = t;
		}
		if (nt < 2) {
			continue;
		}
		if (!strcmp(tok[0], "seed")) {
			X.seed = strtoull(tok[1], NULL, 10);
		} else if (!strcmp(tok[0], "rundir")) {
			snprintf(X.rundir, sizeof(X.rundir), "%s", tok[1]);
		} else if (!strcmp(tok[0], "start")) {
			X.start = atof(tok[1]);
		} else if (!strcmp(tok[0], "arg") && X.argc < 7) {
			X.argv[X.argc++] = strdup(tok[1]);
		} else if (!strcmp(tok[0], "stdin")) {
			X.stdin_data = malloc(strlen(tok[1]) / 2U + 1U);
			X.stdin_z = unhex(X.stdin_data, tok[1]);
		} else if (!strcmp(tok[0], "rfrag")) {
			char *s = tok[1];
			while (*s && X.nrfrag < 64) {
				X.rfrag[X.nrfrag++] = strtol(s, &s, 10);
				if (*s == ',') {
					s++;
				}
			}
		} else if (!strcmp(tok[0], "user") && nt >= 3 && X.nusr < 16) {
			X.uids[X.nusr] = atoi(tok[1]);
			X.gids[X.nusr] = atoi(tok[2]);
			X.nusr++;
		} else if (!strcmp(tok[0], "step") && nt >= 3 && X.nsteps < MAXSTEP) {
			struct step_s *s = X.steps + X.nsteps++;
			s->k = tok[1][0];
			if (s->k == 'w' && nt >= 4) {
				s->fd = atoi(tok[2]);
				s->n = atol(tok[3]);
			} else if (s->k == 's') {
				s->dt = atof(tok[2]);
			} else if (s->k == 'c') {
				s->fd = atoi(tok[2]);
			} else {
				s->n = atol(tok[2]);
			}
		} else if (!strcmp(tok[0], "exitlag")) {
			X.exit_lag = atoi(tok[1]);
		} else if (!strcmp(tok[0], "splicemax")) {
			X.splice_max = atoi(tok[1]);
		} else if (!strcmp(tok[0], "sendfilemax")) {
			X.sendfile_max = atoi(tok[1]);
		} else if (!strcmp(tok[0], "eintr")) {
			X.eintr_writes = atoi(tok[1]);
		} else if (!strcmp(tok[0], "spawnstall")) {
			X.spawn_stall = atof(tok[1]);
		} else if (!strcmp(tok[0], "spawnfail")) {
			X.spawn_fail = errno_of(tok[1]);
		} else if (!strcmp(tok[0], "prepstall")) {
			X.prep_stall = atof(tok[1]);
		} else if (!strcmp(tok[0], "maildelay")) {
			X.mail_delay = atof(tok[1]);
		} else if (!strcmp(tok[0], "linger")) {
			X.linger = atof(tok[1]);
		} else if (!strcmp(tok[0], "mailfail")) {
			X.mail_fail = errno_of(tok[1]);
		} else if (!strcmp(tok[0], "openfail")) {
			X.open_fail_out = atoi(tok[1]);
		}
	}
	X.argv[X.argc] = NULL;
	free(line);
	fclose(f);
	return 0;
}

const char *__asan_default_options(void);
__attribute__((used)) const char*
__asan_default_options(void)
{
	return "exitcode=77:detect_leaks=0:abort_on_error=0:handle_abort=0:detect_stack_use_after_return=0:"
		"allocator_may_return_null=1";
}

const char *__ubsan_default_options(void);
__attribute__((used)) const char*
__ubsan_default_options(void)
{
	return "halt_on_error=1:exitcode=77:print_stacktrace=1";
}

static int
run_one(const char *script, const char *histfn)
{
	pid_t p;
	int st;
	const char *how = "?";
	int code = 0;

	if (load(script) < 0) {
		return 2;
	}
	fflush(NULL);
	if ((p = fork()) == 0) {
		char fn[700];
		int fd, rc;

		hist_fd = __real_open(histfn, O_WRONLY | O_CREAT | O_TRUNC, 0644);
		/* (a serving parent has numbered the end record of the previous run) */
		hist_seq = 0UL;
		hist_rundir = X.rundir;
		hist_rundirz = strlen(X.rundir);
		/* echsx's stdout is the journal, its stderr the log */
		snprintf(fn, sizeof(fn), "%s/journal.ics", X.rundir);
		fd = __real_open(fn, O_RDWR | O_CREAT | O_TRUNC, 0644);
		dup2(fd, STDOUT_FILENO);
		__real_close(fd);
		snprintf(fn, sizeof(fn), "%s/echsx.log", X.rundir);
		fd = __real_open(fn, O_WRONLY | O_CREAT | O_TRUNC, 0644);
		dup2(fd, STDERR_FILENO);
		__real_close(fd);
		snprintf(fn, sizeof(fn), "%s/root", X.rundir);
		if (__real_chdir(fn) < 0) {
			_exit(95);
		}
		signal(SIGPIPE, SIG_IGN);
		vt = X.start;
		evm_host = (struct evm_host){
			.next_wake = host_next_wake, .io_ready = host_io_ready,
			.reap = host_reap, .io_perm = host_io_perm,
			.contract = host_contract,
		};
		evm_reset(vt);
		__real_alarm(20);
		h_begin("start", vt);
		h_end();
		scrub_stack();
		rc = echsx_main(X.argc, X.argv);
		h_begin("main-returned", vt);
		h_int("rc", rc);
		h_int("jobspawns", njobspawn);
		h_int("mailspawned", M.spawned);
		h_int("alarm_pending", alarm_at >= 0.);
		h_end();
		_exit(0);
	} else if (p < 0) {
		return 2;
	}
	while (__real_waitpid(p, &st, 0) < 0 && errno == EINTR);
	if (WIFEXITED(st)) {
		code = WEXITSTATUS(st);
		how = code == 0 ? "clean" : code == 77 ? "sanitizer"
			: code == 97 ? "iter-cap" : code == 96 ? "sigalrm-default" : "exit";
	} else {
		code = WTERMSIG(st);
		how = code == SIGALRM ? "hang" : code == SIGABRT ? "abort" : "signal";
	}
	hist_fd = __real_open(histfn, O_WRONLY | O_APPEND);
	hist_seq = 9999990UL;
	h_begin("end", 0.);
	h_str("how", how, -1);
	h_int("code", code);
	h_end();
	__real_close(hist_fd);
	hist_fd = -1;
	return 0;
}

int
main(int argc, char *argv[])
{
	no_aslr(argv);
	if (argc >= 4 && !strcmp(argv[1], "run")) {
		return run_one(argv[2], argv[3]);
	} else if (argc >= 2 && !strcmp(argv[1], "serve")) {
		char line[2048];

		setvbuf(stdout, NULL, _IOLBF, 0);
		while (fgets(line, sizeof(line), stdin)) {
			char *sp = strchr(line, ' ');
			char *nl = strchr(line, '\n');

			if (nl) {
				*nl = '\0';
			}
			if (sp == NULL) {
				puts("done 2");
				continue;
			}
			*sp++ = '\0';
			printf("done %d\n", run_one(line, sp));
		}
		return 0;
	}
	fprintf(stderr, "usage: simx run SCRIPT HISTORY | simx serve\n");
	return 2;
}
