/* evmodel_conf.c -- conformance scenarios, run against real libev and the model
 *
 * Built twice: with -DCONF_MODEL against evmodel.o, without against -lev.
 * Both print a trace per scenario; the Makefile diffs the two outputs.
 * On the real library every watcher is made due BEFORE a single
 * ev_run(EVRUN_ONCE), so the trace does not depend on timing. */
#include <stdio.h>
#include <stdlib.h>
#include <string.h>
#include <unistd.h>
#include <signal.h>
#include <poll.h>
#include <fcntl.h>
#include <sys/wait.h>
#include <ev.h>
#if defined CONF_MODEL
# include "evmodel.h"
#endif

static char trace[8192];
static char iogrp[64][16];
static int niogrp;

static int
cmpstr(const void *a, const void *b)
{
	return strcmp(a, b);
}

static void
flush_io(void)
{
	if (niogrp) {
		qsort(iogrp, niogrp, sizeof(*iogrp), cmpstr);
		strcat(trace, " io{");
		for (int i = 0; i < niogrp; i++) {
			strcat(trace, i ? "," : "");
			strcat(trace, iogrp[i]);
		}
		strcat(trace, "}");
		niogrp = 0;
	}
}

static void
tr(const char *s)
{
	flush_io();
	strcat(trace, " ");
	strcat(trace, s);
}

static void
tr_io(const char *s)
{
	strcpy(iogrp[niogrp++], s);
}

static void
endscn(const char *name)
{
	flush_io();
	printf("%s:%s\n", name, trace);
	trace[0] = '\0';
	fflush(stdout);
}


#if defined CONF_MODEL
/* scripted host */
static double h_time = 1000000.0;
static int h_pids[8], h_sts[8], h_npids;
static int h_sigs[8], h_nsigs;

static double
h_next_wake(double now, double due, int ioready)
{
	(void)ioready;
	/* overdue watchers: poll returns at once */
	h_time = due <= now ? now + 0.001 : now + 1.0;
	return h_time;
}

static double
h_clock(void)
{
	return h_time;
}

static int
h_io_ready(int fd, int events)
{
	struct pollfd p = {.fd = fd, .events = POLLIN};
	(void)events;
	return poll(&p, 1, 0) > 0 ? EV_READ : 0;
}

static int
h_reap(double w, int *pid, int *st)
{
	(void)w;
	if (!h_npids) {
		return 0;
	}
	*pid = h_pids[0], *st = h_sts[0];
	memmove(h_pids, h_pids + 1, sizeof(h_pids) - sizeof(*h_pids));
	memmove(h_sts, h_sts + 1, sizeof(h_sts) - sizeof(*h_sts));
	h_npids--;
	return 1;
}

static int
h_next_signal(double w)
{
	(void)w;
	return h_nsigs ? h_sigs[--h_nsigs] : 0;
}

static unsigned long
h_io_perm(unsigned long it)
{
	return it * 2654435761UL + 12345UL;
}

static void
h_contract(const char *what)
{
	(void)what;
}

static struct ev_loop*
fresh_loop(void)
{
	evm_host = (struct evm_host){
		.next_wake = h_next_wake, .io_ready = h_io_ready,
		.reap = h_reap, .next_signal = h_next_signal,
		.io_perm = h_io_perm, .contract = h_contract,
		.clock = h_clock,
	};
	h_npids = h_nsigs = 0;
	evm_reset(h_time);
	return ev_default_loop(0);
}

static int
make_child(int code)
{
	static int nextpid = 4000;
	h_pids[h_npids] = ++nextpid;
	h_sts[h_npids] = code << 8;
	h_npids++;
	return nextpid;
}

static void
send_sig(int s)
{
	h_sigs[h_nsigs++] = s;
}

static void
settle(void)
{
}

static void
busy(double d)
{
	/* a callback that takes D seconds */
	h_time = evm_now() + d;
}

#else  /* real libev */

static struct ev_loop*
fresh_loop(void)
{
	if (ev_default_loop_uc_()) {
		ev_loop_destroy(ev_default_loop_uc_());
	}
	return ev_default_loop(0);
}

static int
make_child(int code)
{
	pid_t p = fork();
	if (p == 0) {
		_exit(code);
	}
	/* wait until it is a zombie */
	for (;;) {
		char fn[64], buf[256], *q;
		FILE *f;
		snprintf(fn, sizeof(fn), "/proc/%d/stat", (int)p);
		if ((f = fopen(fn, "r")) == NULL) {
			break;
		}
		if (fgets(buf, sizeof(buf), f) && (q = strrchr(buf, ')')) &&
		    q[2] == 'Z') {
			fclose(f);
			break;
		}
		fclose(f);
		usleep(1000);
	}
	return p;
}

static void
send_sig(int s)
{
	raise(s);
}

static void
settle(void)
{
	/* let the monotonic clock advance a little */
	usleep(2000);
}

static void
busy(double d)
{
	usleep((useconds_t)(d * 1e6));
}
#endif	/* CONF_MODEL */


/* callbacks */
struct nm_periodic {
	ev_periodic w;
	const char *nm;
	double first;
	int nres;
	int mode;
};
struct nm_timer {
	ev_timer w;
	const char *nm;
};
struct nm_io {
	ev_io w;
	const char *nm;
};
struct nm_child {
	ev_child w;
	const char *nm;
};
struct nm_signal {
	ev_signal w;
	const char *nm;
};

static struct nm_periodic late_pb;
static void mk_periodic(struct ev_loop*, struct nm_periodic*, const char*, double, int);
static struct nm_periodic *victim;
static int res_unordered;
static int do_brk;
static struct nm_periodic late;
static double late_now, late_evnow;

static ev_tstamp
p_res(ev_periodic *w, ev_tstamp now)
{
	struct nm_periodic *p = (void*)w;
	char b[64];

	if (!p->nres++) {
		/* at start: a time in the past */
		return now - p->first;
	}
	snprintf(b, sizeof(b), "res(%s)", p->nm);
	if (res_unordered) {
		/* libev walks its heap array: no order to speak of */
		tr_io(b);
	} else {
		tr(b);
	}
	switch (p->mode) {
	case 1:
		/* exactly now, once */
		if (p->nres == 2) {
			return now;
		}
		break;
	case 2:
		/* in the past: contract violation */
		return now - 1.0;
	}
	return now + 1000.0;
}

static ev_tstamp
late_res(ev_periodic *w, ev_tstamp now)
{
	(void)w;
	late_now = now;
	return now + 1000.0;
}

static void
p_cb(struct ev_loop *l, ev_periodic *w, int r)
{
	struct nm_periodic *p = (void*)w;
	char b[64];

	(void)r;
	snprintf(b, sizeof(b), "cb(%s)", p->nm);
	tr(b);
	if (victim && victim != p && p->mode == 3) {
		ev_periodic_stop(l, &victim->w);
	}
	if (do_brk && p->mode == 4) {
		ev_break(l, EVBREAK_ALL);
	}
	if (p->mode == 5) {
		/* what echsd does before it spawns an executor; PB is
		 * started overdue (by construction, not by waiting: the trace
		 * must not depend on how fast the machine is) */
		ev_loop_fork(l);
		mk_periodic(l, &late_pb, "PB", 1.0, 0);
	}
}

static void
t_cb(struct ev_loop *l, ev_timer *w, int r)
{
	struct nm_timer *p = (void*)w;
	char b[64];

	(void)r;
	snprintf(b, sizeof(b), "cb(%s)", p->nm);
	tr(b);
	if (!strcmp(p->nm, "TL")) {
		late_evnow = ev_now(l);
		ev_periodic_init(&late.w, p_cb, 0., 0., late_res);
		ev_periodic_start(l, &late.w);
		tr(late_now == late_evnow ? "start-now=iter-now" : "start-now!=iter-now");
		ev_periodic_stop(l, &late.w);
	}
}

static void
i_cb(struct ev_loop *l, ev_io *w, int r)
{
	struct nm_io *p = (void*)w;
	char c;

	(void)r;
	tr_io(p->nm);
	if (read(w->fd, &c, 1) < 0) {
		;
	}
	ev_io_stop(l, w);
}

static void
c_cb(struct ev_loop *l, ev_child *w, int r)
{
	struct nm_child *p = (void*)w;
	char b[64];

	(void)r;
	snprintf(b, sizeof(b), "cb(%s:%d)", p->nm, WEXITSTATUS(w->rstatus));
	tr(b);
	ev_child_stop(l, w);
	if (victim) {
		ev_periodic_stop(l, &victim->w);
	}
}

static void
s_cb(struct ev_loop *l, ev_signal *w, int r)
{
	struct nm_signal *p = (void*)w;
	char b[64];

	(void)l, (void)r;
	snprintf(b, sizeof(b), "cb(%s)", p->nm);
	tr(b);
}

static void
mk_periodic(struct ev_loop *l, struct nm_periodic *p, const char *nm,
	    double first, int mode)
{
	memset(p, 0, sizeof(*p));
	p->nm = nm, p->first = first, p->mode = mode;
	ev_periodic_init(&p->w, p_cb, 0., 0., p_res);
	ev_periodic_start(l, &p->w);
}

static void
mk_timer(struct ev_loop *l, struct nm_timer *t, const char *nm, double after)
{
	memset(t, 0, sizeof(*t));
	t->nm = nm;
	ev_timer_init(&t->w, t_cb, after, 0.);
	ev_timer_start(l, &t->w);
}

static void
mk_io(struct ev_loop *l, struct nm_io *i, const char *nm)
{
	int p[2];

	memset(i, 0, sizeof(*i));
	i->nm = nm;
	if (pipe(p) < 0 || write(p[1], "x", 1) < 0) {
		abort();
	}
	ev_io_init(&i->w, i_cb, p[0], EV_READ);
	ev_io_start(l, &i->w);
}


static void
scn_order(void)
{
	struct ev_loop *l = fresh_loop();
	struct nm_periodic pa, pb, pc;
	struct nm_timer t1, t2, t3;
	struct nm_io i1, i2, i3;
	struct nm_child c1, c2;
	struct nm_signal st, sh;

	mk_periodic(l, &pa, "PA", 1.0, 0);
	mk_periodic(l, &pb, "PB", 3.0, 0);
	mk_periodic(l, &pc, "PC", 2.0, 0);
	mk_timer(l, &t1, "T1", -1.0);
	mk_timer(l, &t2, "T2", -3.0);
	mk_timer(l, &t3, "T3", -2.0);
	mk_io(l, &i1, "I1");
	mk_io(l, &i2, "I2");
	mk_io(l, &i3, "I3");
	memset(&st, 0, sizeof(st));
	memset(&sh, 0, sizeof(sh));
	st.nm = "SIGTERM", sh.nm = "SIGHUP";
	ev_signal_init(&st.w, s_cb, SIGTERM);
	ev_signal_start(l, &st.w);
	ev_signal_init(&sh.w, s_cb, SIGHUP);
	ev_signal_start(l, &sh.w);
	memset(&c1, 0, sizeof(c1));
	memset(&c2, 0, sizeof(c2));
	c1.nm = "C1", c2.nm = "C2";
	ev_child_init(&c1.w, c_cb, make_child(11), 0);
	ev_child_start(l, &c1.w);
	ev_child_init(&c2.w, c_cb, make_child(12), 0);
	ev_child_start(l, &c2.w);
	send_sig(SIGHUP);
	send_sig(SIGTERM);
	settle();
	ev_run(l, EVRUN_ONCE);
	endscn("order");
}

static void
scn_exact(void)
{
/* reschedule returning exactly now is legal and does not fire again
 * within the iteration; it fires in the next one */
	struct ev_loop *l = fresh_loop();
	struct nm_periodic pa;

	mk_periodic(l, &pa, "PA", 1.0, 1);
	settle();
	ev_run(l, EVRUN_ONCE);
	tr("|");
	settle();
	ev_run(l, EVRUN_ONCE | EVRUN_NOWAIT);
	tr("|");
	settle();
	ev_run(l, EVRUN_ONCE | EVRUN_NOWAIT);
	endscn("exact");
}

static void
scn_stop_clears(void)
{
/* PA (earlier) stops PB in its callback: PB's reschedule ran, its
 * callback must not */
	struct ev_loop *l = fresh_loop();
	struct nm_periodic pa, pb;

	mk_periodic(l, &pa, "PA", 2.0, 3);
	mk_periodic(l, &pb, "PB", 1.0, 0);
	victim = &pb;
	settle();
	ev_run(l, EVRUN_ONCE);
	victim = NULL;
	endscn("stop-clears-pending");
}

static void
scn_child_stops_periodic(void)
{
/* a child callback (first in the iteration) stops a due periodic */
	struct ev_loop *l = fresh_loop();
	struct nm_periodic pa;
	struct nm_child c1;

	mk_periodic(l, &pa, "PA", 1.0, 0);
	memset(&c1, 0, sizeof(c1));
	c1.nm = "C1";
	ev_child_init(&c1.w, c_cb, make_child(7), 0);
	ev_child_start(l, &c1.w);
	victim = &pa;
	settle();
	ev_run(l, EVRUN_ONCE);
	victim = NULL;
	endscn("child-stops-periodic");
}

static void
scn_break(void)
{
/* ev_break in PA's callback: PB's callback still runs, ev_run returns */
	struct ev_loop *l = fresh_loop();
	struct nm_periodic pa, pb;

	mk_periodic(l, &pa, "PA", 2.0, 4);
	mk_periodic(l, &pb, "PB", 1.0, 0);
	do_brk = 1;
	settle();
	ev_run(l, 0);
	do_brk = 0;
	tr("returned");
	endscn("break");
}

static void
scn_loop_fork(void)
{
/* PA's callback calls ev_loop_fork() and starts PB, overdue.  The next
 * iteration begins by rescheduling all periodics with the current time
 * (PB's expiry is never delivered, nor is PC's) and ends with doing so once
 * more, after all other callbacks. */
	struct ev_loop *l = fresh_loop();
	struct nm_periodic pa, pc;
	struct nm_timer t1;

	mk_periodic(l, &pa, "PA", 1.0, 5);
	res_unordered = 1;
	settle();
	ev_run(l, EVRUN_ONCE);
	tr("|");
	/* PC is due in the second iteration; so is T1 */
	mk_periodic(l, &pc, "PC", 1.0, 0);
	mk_timer(l, &t1, "T1", -1.0);
	ev_run(l, EVRUN_ONCE | EVRUN_NOWAIT);
	tr("|");
	ev_run(l, EVRUN_ONCE | EVRUN_NOWAIT);
	res_unordered = 0;
	endscn("loop-fork");
}

static void
scn_start_in_cb(void)
{
	struct ev_loop *l = fresh_loop();
	struct nm_timer tl;

	mk_timer(l, &tl, "TL", -1.0);
	settle();
	ev_run(l, EVRUN_ONCE);
	endscn("start-in-callback");
}

static void
scn_unwatched_child(void)
{
/* a child nobody watches is reaped and dropped */
	struct ev_loop *l = fresh_loop();
	struct nm_child c1;
	struct nm_timer t1;
	int pid;

	memset(&c1, 0, sizeof(c1));
	c1.nm = "C1";
	/* libev needs the SIGCHLD machinery up: start+stop a watcher */
	ev_child_init(&c1.w, c_cb, 1, 0);
	ev_child_start(l, &c1.w);
	ev_child_stop(l, &c1.w);
	pid = make_child(3);
	mk_timer(l, &t1, "T1", -1.0);
	settle();
	ev_run(l, EVRUN_ONCE);
	/* now watch for it: must never fire */
	ev_child_init(&c1.w, c_cb, pid, 0);
	ev_child_start(l, &c1.w);
	mk_timer(l, &t1, "T2", -1.0);
	settle();
	ev_run(l, EVRUN_ONCE);
	endscn("unwatched-child");
}

static void
scn_past(void)
{
	pid_t p;
	int st;

	fflush(stdout);
	if ((p = fork()) == 0) {
		struct ev_loop *l = fresh_loop();
		struct nm_periodic pa;
		int nul = open("/dev/null", 1);

		dup2(nul, 2);
		mk_periodic(l, &pa, "PA", 1.0, 2);
		settle();
		ev_run(l, EVRUN_ONCE);
		_exit(0);
	}
	waitpid(p, &st, 0);
	tr(WIFSIGNALED(st) && WTERMSIG(st) == SIGABRT ? "aborted" : "survived");
	endscn("reschedule-in-the-past");
}



int
main(void)
{
	scn_order();
	scn_exact();
	scn_stop_clears();
	scn_child_stops_periodic();
	scn_break();
	scn_start_in_cb();
	scn_loop_fork();
	scn_unwatched_child();
	scn_past();
	return 0;
}
