/* simd.c -- the daemon world: echsd.c (unmodified, main() included) under
 * the libev model, a virtual clock and an interposed system-call layer.
 *
 * usage: simd run SCRIPT HISTORY
 *        simd serve           (reads "SCRIPT HISTORY\n" lines, answers "done RC\n")
 *
 * One forked process per daemon life ("epoch"); the parent stays pristine
 * so every epoch starts with fresh statics.  See DESIGN.md 3.1. */

#include <stdlib.h>
#include <stdio.h>
#include <string.h>
#include <stdint.h>
#include <stdarg.h>
#include <errno.h>
#include <unistd.h>
#include <fcntl.h>
#include <signal.h>
#include <poll.h>
#include <dirent.h>
#include <pwd.h>
#include <spawn.h>
#include <time.h>
#include <sys/types.h>
#include <sys/stat.h>
#include <sys/socket.h>
#include <sys/wait.h>
#include <sys/sendfile.h>
#include "evmodel.h"
#include "simcommon.h"

/* real entry points behind the --wrap'd symbols */
extern time_t __real_time(time_t*);
extern ssize_t __real_read(int, void*, size_t);
extern ssize_t __real_recv(int, void*, size_t, int);
extern ssize_t __real_sendfile(int, int, off_t*, size_t);
extern int __real_open(const char*, int, ...);
extern int __real_openat(int, const char*, int, ...);
extern int __real_close(int);
extern int __real_renameat(int, const char*, int, const char*);
extern int __real_unlinkat(int, const char*, int);
extern int __real_fstatat(int, const char*, struct stat*, int);
extern int __real_stat(const char*, struct stat*);
extern int __real_mkdir(const char*, mode_t);
extern DIR *__real_opendir(const char*);
extern struct dirent *__real_readdir(DIR*);
extern int __real_closedir(DIR*);
extern int __real_pipe(int[2]);

#define MAXCONN	512
#define MAXOPS	65536
#define MAXUSR	64
#define MAXCHLD	8192
#define MAXLIFE	256

struct op_s {
	double t;
	enum {
		OP_CONN, OP_SEND, OP_FRAG, OP_SHUTWR, OP_CLOSE, OP_SIGNAL,
		OP_CRASH, OP_SPOOLFAULT, OP_SPAWNFAULT, OP_STALL, OP_MARK, OP_CLOCKSTEP,
	} k;
	int c;
	long a, b;
	char *s;
	size_t z;
	char kind[16];
};

struct usr_s {
	uid_t uid;
	gid_t gid;
	char name[32];
	char home[256];
	char shell[64];
};

struct life_s {
	char uid[256];
	int n;
	struct {
		double life;
		int status;
		double delay;
	} l[16];
	int used;
};

struct conn_s {
	int used;
	int dfd;	/* daemon side */
	int pfd;	/* peer (client) side, non-blocking */
	uid_t uid;
	gid_t gid;
	int accepted;
	int closed_by_daemon;
	int peer_closed;
	/* recv fragment sizes */
	int frag[64];
	int nfrag;
	int fragi;
	/* client bytes not yet accepted by the socket */
	char *pend;
	size_t npend;
	int want_shutwr;
};

struct chld_s {
	int pid;
	double t_spawn;
	double t_exit;
	double delay;
	int status;
	int delivered;
	/* job control: the executor is stopped at t_stop and continued
	 * t_cont later (SIGSTOP/SIGCONT by an operator); -1 = never */
	double t_stop, t_cont;
	int jc;			/* 0 nothing reported, 1 stop, 2 continuation */
};

/* the plan */
static struct {
	uint64_t seed;
	char rundir[512];
	uid_t daemon_uid;
	double late_p, late_max, exact_p, jit_max;
	/* time a posix_spawn() takes: with probability COST_P up to COST_MAX s */
	double cost_p, cost_max;
	double jobctl_p;	/* share of executors stopped and continued */
	struct usr_s usr[MAXUSR];
	int nusr;
	struct life_s life[MAXLIFE];
	int nlife;
	int readfrag[64];
	int nreadfrag;
	uint64_t dirperm;
	/* epochs */
	int nepoch;
	double ep_start[16];
	int ep_op0[17];
	struct op_s *ops;
	int nops;
} P;

/* per-epoch state */
static int cur_epoch;
static int opi, ope;
static struct conn_s sconns[MAXCONN];
static int acceptq[MAXCONN], nacceptq;
static int listen_fd = -1;
static struct chld_s chlds[MAXCHLD];
static int nchlds;
static int sigq[16], nsigq;
static double stall_next;
/* a wall clock step applied by the op just handled (seconds) */
static double step_now;
static char spooldir[600];
static int spool_dfd = -1;	/* the daemon's qdirfd as we see it */

/* spool fault machinery */
static long spool_calls;	/* counted since the last arming */
static long sf_k = -1;
static char sf_kind[16];
static int sf_errno;
static int spool_fds[64], nspool_fds;
static long spool_calls_total;

/* spawn fault machinery */
static int spf_pipe, spf_spawn, spf_errno;

/* spawn capture */
static struct {
	int active;
	int rfd_dup;
	int wfd;
	int pid;
	char argv[256];
	int norun;
	double life;
	int status;
	double delay;
} cur_spawn;
static int last_pipe[2] = {-1, -1};
static int nspawns;

/* forward: defined after echsd.c is included (need its internals) */
static const char *task_uid_of(void *w);
static void tr_cb(const char *kind, void *w, int revents);
static void tr_cb_done(const char *kind, void *w);
static void tr_resched(ev_periodic *w, double now, double ret);
static void tr_startstop(const char *what, const char *kind, void *w);
static void spool_check(const char *after);

/* the wall clock runs on while the daemon executes a callback */
static double wall_abs;
static int resched_all_ctx;

static double
vnow(void)
{
	double n = evm_now();
	return n > wall_abs ? n : wall_abs;
}

static void
spend(double d)
{
	wall_abs = vnow() + d;
}

static void
tr_resched_all(int begin)
{
	resched_all_ctx = begin;
}


/* ------------------------------------------------------------ users */
static struct usr_s*
find_usr(uid_t u)
{
	for (int i = 0; i < P.nusr; i++) {
		if (P.usr[i].uid == u) {
			return P.usr + i;
		}
	}
	return NULL;
}

static struct passwd*
pw_of(struct usr_s *u)
{
	static struct passwd pw;

	if (u == NULL) {
		return NULL;
	}
	pw = (struct passwd){
		.pw_name = u->name, .pw_passwd = "x",
		.pw_uid = u->uid, .pw_gid = u->gid,
		.pw_gecos = u->name, .pw_dir = u->home, .pw_shell = u->shell,
	};
	return &pw;
}

struct passwd*
__wrap_getpwuid(uid_t u)
{
	return pw_of(find_usr(u));
}

struct passwd*
__wrap_getpwnam(const char *n)
{
	for (int i = 0; i < P.nusr; i++) {
		if (!strcmp(P.usr[i].name, n)) {
			return pw_of(P.usr + i);
		}
	}
	return NULL;
}

uid_t
__wrap_geteuid(void)
{
	return P.daemon_uid;
}

gid_t
__wrap_getegid(void)
{
	struct usr_s *u = find_usr(P.daemon_uid);
	return u ? u->gid : 0;
}

int
__wrap_gethostname(char *buf, size_t z)
{
	snprintf(buf, z, "simhost");
	return 0;
}

time_t
__wrap_time(time_t *t)
{
	time_t r = (time_t)vnow();
	if (t) {
		*t = r;
	}
	return r;
}


/* ------------------------------------------------------------ paths */
static const char*
remap(const char *p, char *buf, size_t bz)
{
	static const char sp[] = "/var/spool";

	if (!strncmp(p, sp, sizeof(sp) - 1U) &&
	    (p[sizeof(sp) - 1U] == '/' || p[sizeof(sp) - 1U] == '\0')) {
		snprintf(buf, bz, "%s/var/spool%s", P.rundir, p + sizeof(sp) - 1U);
		return buf;
	}
	return p;
}

ssize_t
__wrap_readlink(const char *p, char *buf, size_t z)
{
	if (!strcmp(p, "/proc/self/exe")) {
		int n = snprintf(buf, z, "%s/bin/echsd", P.rundir);
		return n;
	}
	errno = ENOENT;
	return -1;
}

int
__wrap_stat(const char *p, struct stat *st)
{
	char b[1024];
	return __real_stat(remap(p, b, sizeof(b)), st);
}

int
__wrap_mkdir(const char *p, mode_t m)
{
	char b[1024];
	return __real_mkdir(remap(p, b, sizeof(b)), m);
}

int
__wrap_open(const char *p, int fl, ...)
{
	char b[1024];
	mode_t m = 0;
	int fd;

	if (fl & O_CREAT) {
		va_list ap;
		va_start(ap, fl);
		m = va_arg(ap, mode_t);
		va_end(ap);
	}
	p = remap(p, b, sizeof(b));
	fd = __real_open(p, fl, m);
	if (fd >= 0 && spool_dfd < 0 && strstr(p, "/var/spool/echse")) {
		spool_dfd = fd;
		snprintf(spooldir, sizeof(spooldir), "%s", p);
	} else if (fd >= 0 && spool_dfd < 0 && strstr(p, "/.echse/simhost")) {
		spool_dfd = fd;
		snprintf(spooldir, sizeof(spooldir), "%s", p);
	}
	return fd;
}

/* directory listing in a plan-chosen order */
static struct {
	DIR *real;
	char names[1024][64];
	int n, i;
} dirl;

static int
cmpname(const void *a, const void *b)
{
	return strcmp(a, b);
}

DIR*
__wrap_opendir(const char *p)
{
	char b[1024];
	DIR *d = __real_opendir(remap(p, b, sizeof(b)));
	uint64_t key = P.dirperm;

	if (d == NULL) {
		return NULL;
	}
	dirl.real = d;
	dirl.n = dirl.i = 0;
	for (struct dirent *e; (e = __real_readdir(d)) && dirl.n < 1024;) {
		snprintf(dirl.names[dirl.n++], 64, "%s", e->d_name);
	}
	qsort(dirl.names, dirl.n, 64, cmpname);
	for (int i = dirl.n - 1; i > 0; i--) {
		char t[64];
		int j;
		key = mix64(key + cur_epoch);
		j = (int)(key % (uint64_t)(i + 1));
		memcpy(t, dirl.names[i], 64);
		memcpy(dirl.names[i], dirl.names[j], 64);
		memcpy(dirl.names[j], t, 64);
	}
	return d;
}

struct dirent*
__wrap_readdir(DIR *d)
{
	static struct dirent e;

	if (d != dirl.real) {
		return __real_readdir(d);
	}
	if (dirl.i >= dirl.n) {
		return NULL;
	}
	memset(&e, 0, sizeof(e));
	snprintf(e.d_name, sizeof(e.d_name), "%s", dirl.names[dirl.i++]);
	return &e;
}

int
__wrap_closedir(DIR *d)
{
	if (d == dirl.real) {
		dirl.real = NULL;
	}
	return __real_closedir(d);
}


/* ------------------------------------------------------------ sockets */
int
__wrap_bind(int s, const struct sockaddr *a, socklen_t z)
{
	(void)a, (void)z;
	listen_fd = s;
	return 0;
}

int
__wrap_listen(int s, int n)
{
	(void)s, (void)n;
	return 0;
}

static struct conn_s*
conn_by_dfd(int fd)
{
	for (int i = 0; i < MAXCONN; i++) {
		if (sconns[i].used && sconns[i].accepted &&
		    !sconns[i].closed_by_daemon && sconns[i].dfd == fd) {
			return sconns + i;
		}
	}
	return NULL;
}

int
__wrap_accept(int s, struct sockaddr *a, socklen_t *z)
{
	int c;

	(void)s, (void)a;
	if (!nacceptq) {
		errno = EAGAIN;
		return -1;
	}
	c = acceptq[0];
	memmove(acceptq, acceptq + 1, --nacceptq * sizeof(*acceptq));
	sconns[c].accepted = 1;
	if (z) {
		*z = 0;
	}
	h_begin("accept", vnow());
	h_int("c", c);
	h_int("peer", sconns[c].uid);
	h_end();
	return sconns[c].dfd;
}

int
__wrap_getsockopt(int s, int lvl, int opt, void *v, socklen_t *z)
{
	struct conn_s *c = conn_by_dfd(s);
	struct {
		pid_t pid;
		uid_t uid;
		gid_t gid;
	} cr;

	if (c == NULL || lvl != SOL_SOCKET || opt != SO_PEERCRED) {
		errno = ENOTSOCK;
		return -1;
	}
	cr.pid = 4242, cr.uid = c->uid, cr.gid = c->gid;
	memcpy(v, &cr, sizeof(cr));
	*z = sizeof(cr);
	return 0;
}

int
__wrap_setsockopt(int s, int lvl, int opt, const void *v, socklen_t z)
{
	(void)s, (void)lvl, (void)opt, (void)v, (void)z;
	return 0;
}

ssize_t
__wrap_recv(int fd, void *buf, size_t len, int fl)
{
	struct conn_s *c = conn_by_dfd(fd);
	ssize_t n;

	if (c && c->nfrag) {
		int f = c->frag[c->fragi++ % c->nfrag];
		if (f > 0 && (size_t)f < len) {
			len = f;
		}
	}
	n = __real_recv(fd, buf, len, fl | MSG_DONTWAIT);
	if (c) {
		h_begin("recv", vnow());
		h_int("c", c - sconns);
		h_int("n", n);
		h_end();
	}
	return n;
}

/* drain what the daemon wrote to connection C into the history */
static void
drain_conn(struct conn_s *c)
{
	static char buf[1 << 18];
	size_t tot = 0U;
	int eof = 0;

	if (!c->used || c->peer_closed || c->pfd < 0) {
		return;
	}
	for (;;) {
		ssize_t n = __real_read(c->pfd, buf + tot, sizeof(buf) - tot);
		if (n > 0) {
			tot += n;
			if (tot >= sizeof(buf)) {
				h_begin("reply", vnow());
				h_int("c", c - sconns);
				h_str("data", buf, tot);
				h_end();
				tot = 0U;
			}
			continue;
		} else if (n == 0) {
			eof = 1;
		}
		break;
	}
	if (tot) {
		h_begin("reply", vnow());
		h_int("c", c - sconns);
		h_str("data", buf, tot);
		h_end();
	}
	if (eof && !c->closed_by_daemon) {
		/* daemon side gone without our close() seeing it? */
		c->closed_by_daemon = 1;
	}
	if (eof) {
		h_begin("dclosed", vnow());
		h_int("c", c - sconns);
		h_end();
		__real_close(c->pfd);
		c->pfd = -1;
		c->peer_closed = 1;
	}
}

static void
drain_all(void)
{
	for (int i = 0; i < MAXCONN; i++) {
		if (sconns[i].used && sconns[i].accepted) {
			drain_conn(sconns + i);
		}
	}
}

static void
flush_client(struct conn_s *c)
{
/* push queued client bytes into the socket */
	while (c->npend && c->pfd >= 0) {
		ssize_t n = __real_write(c->pfd, c->pend, c->npend);
		if (n <= 0) {
			break;
		}
		memmove(c->pend, c->pend + n, c->npend - n);
		c->npend -= n;
	}
	if (!c->npend && c->want_shutwr && c->pfd >= 0) {
		shutdown(c->pfd, SHUT_WR);
		c->want_shutwr = 0;
	}
}


/* ------------------------------------------------------------ spool */
static int
spool_fd_p(int fd)
{
	for (int i = 0; i < nspool_fds; i++) {
		if (spool_fds[i] == fd) {
			return 1;
		}
	}
	return 0;
}

static void
h_sys(const char *call, const char *path, const char *to, long rc, int inj,
      long n)
{
	h_begin("sys", vnow());
	h_str("call", call, -1);
	if (path) {
		h_str("path", path, -1);
	}
	if (to) {
		h_str("to", to, -1);
	}
	h_int("rc", rc);
	if (n >= 0) {
		h_int("n", n);
	}
	h_int("inj", inj);
	h_int("kc", spool_calls_total);
	h_end();
}

/* returns 0 = proceed, 1 = fail with errno set, 2 = short */
static int
spool_point(const char *call, const char *path)
{
	long k = spool_calls++;

	spool_calls_total++;
	if (sf_k >= 0 && k == sf_k) {
		sf_k = -1;
		if (!strcmp(sf_kind, "crash")) {
			h_begin("crash", vnow());
			h_str("at", call, -1);
			if (path) {
				h_str("path", path, -1);
			}
			h_int("kc", spool_calls_total);
			h_end();
			_exit(99);
		} else if (!strcmp(sf_kind, "short")) {
			return 2;
		}
		errno = sf_errno;
		return 1;
	}
	return 0;
}

int
__wrap_openat(int dfd, const char *p, int fl, ...)
{
	mode_t m = 0;
	int fd;

	if (fl & O_CREAT) {
		va_list ap;
		va_start(ap, fl);
		m = va_arg(ap, mode_t);
		va_end(ap);
	}
	if (dfd == spool_dfd && dfd >= 0 && !strncmp(p, ".echsq_", 7U)) {
		/* checkpoint scratch file */
		int e;
		if (spool_point("openat", p) == 1) {
			e = errno;
			h_sys("openat", p, NULL, -1, 1, -1);
			errno = e;
			return -1;
		}
		fd = __real_openat(dfd, p, fl, m);
		e = errno;
		if (fd >= 0 && nspool_fds < 64) {
			spool_fds[nspool_fds++] = fd;
		}
		h_sys("openat", p, NULL, fd >= 0 ? 0 : -1, 0, -1);
		spool_check("openat");
		errno = e;
		return fd;
	}
	return __real_openat(dfd, p, fl, m);
}

ssize_t
__wrap_write(int fd, const void *buf, size_t len)
{
	struct conn_s *c;

	if (spool_fd_p(fd)) {
		ssize_t n;
		int e;

		switch (spool_point("write", NULL)) {
		case 1:
			e = errno;
			h_sys("write", NULL, NULL, -1, 1, len);
			errno = e;
			return -1;
		case 2:
			n = __real_write(fd, buf, len > 1U ? len / 2U : len);
			e = errno;
			h_sys("write", NULL, NULL, n, 1, len);
			spool_check("write");
			errno = e;
			return n;
		default:
			break;
		}
		n = __real_write(fd, buf, len);
		e = errno;
		h_sys("write", NULL, NULL, n, 0, len);
		spool_check("write");
		errno = e;
		return n;
	} else if ((c = conn_by_dfd(fd)) != NULL) {
		/* blocking write to a client that reads: chunk and drain */
		size_t off = 0U;

		while (off < len) {
			size_t ch = len - off < 32768U ? len - off : 32768U;
			ssize_t n = send(fd, (const char*)buf + off, ch, MSG_NOSIGNAL);
			if (n <= 0) {
				return off ? (ssize_t)off : n;
			}
			off += n;
			drain_conn(c);
		}
		return off;
	}
	return __real_write(fd, buf, len);
}

ssize_t
__wrap_sendfile(int ofd, int ifd, off_t *off, size_t cnt)
{
	struct conn_s *c = conn_by_dfd(ofd);
	size_t tot = 0U;

	if (c == NULL) {
		return __real_sendfile(ofd, ifd, off, cnt);
	}
	while (tot < cnt) {
		size_t ch = cnt - tot < 32768U ? cnt - tot : 32768U;
		ssize_t n = __real_sendfile(ofd, ifd, off, ch);
		if (n <= 0) {
			return tot ? (ssize_t)tot : n;
		}
		tot += n;
		drain_conn(c);
	}
	return tot;
}

static void spawn_capture_done(void);

int
__wrap_close(int fd)
{
	struct conn_s *c;
	int rc;

	if (spool_fd_p(fd)) {
		int inj = 0, e;

		if (spool_point("close", NULL) == 1) {
			/* the descriptor is gone nonetheless (as on Linux) */
			e = errno;
			inj = 1;
			__real_close(fd);
			rc = -1;
		} else {
			rc = __real_close(fd);
			e = errno;
		}
		for (int i = 0; i < nspool_fds; i++) {
			if (spool_fds[i] == fd) {
				spool_fds[i] = spool_fds[--nspool_fds];
				break;
			}
		}
		h_sys("close", NULL, NULL, rc, inj, -1);
		spool_check("close");
		errno = e;
		return rc;
	} else if ((c = conn_by_dfd(fd)) != NULL) {
		rc = __real_close(fd);
		c->closed_by_daemon = 1;
		h_begin("dclose", vnow());
		h_int("c", c - sconns);
		h_end();
		drain_conn(c);
		return rc;
	} else if (cur_spawn.active && fd == cur_spawn.wfd) {
		rc = __real_close(fd);
		spawn_capture_done();
		return rc;
	} else if (fd == spool_dfd) {
		spool_dfd = -1;
	}
	return __real_close(fd);
}

int
__wrap_renameat(int od, const char *o, int nd, const char *n)
{
	int rc, e;

	if (od != spool_dfd) {
		return __real_renameat(od, o, nd, n);
	}
	if (spool_point("renameat", o) == 1) {
		e = errno;
		h_sys("renameat", o, n, -1, 1, -1);
		errno = e;
		return -1;
	}
	rc = __real_renameat(od, o, nd, n);
	e = errno;
	h_sys("renameat", o, n, rc, 0, -1);
	if (rc == 0) {
		/* snapshot of what has just become the live file */
		static char buf[1 << 19];
		int fd = __real_openat(nd, n, O_RDONLY);
		ssize_t z = 0;

		if (fd >= 0) {
			for (ssize_t r; z < (ssize_t)sizeof(buf) &&
				     (r = __real_read(fd, buf + z, sizeof(buf) - z)) > 0;
			     z += r);
			__real_close(fd);
		}
		h_begin("snapshot", vnow());
		h_str("path", n, -1);
		h_str("data", buf, z);
		h_end();
	}
	spool_check("renameat");
	errno = e;
	return rc;
}

int
__wrap_unlinkat(int d, const char *p, int fl)
{
	int rc, e;

	if (d != spool_dfd) {
		return __real_unlinkat(d, p, fl);
	}
	if (spool_point("unlinkat", p) == 1) {
		e = errno;
		h_sys("unlinkat", p, NULL, -1, 1, -1);
		errno = e;
		return -1;
	}
	rc = __real_unlinkat(d, p, fl);
	e = errno;
	h_sys("unlinkat", p, NULL, rc, 0, -1);
	spool_check("unlinkat");
	errno = e;
	return rc;
}

ssize_t
__wrap_read(int fd, void *buf, size_t len)
{
/* reload of queue files: plan-chosen short reads */
	static int ri;

	if (P.nreadfrag && len == 65536U) {
		int f = P.readfrag[ri++ % P.nreadfrag];
		if (f > 0 && (size_t)f < len) {
			len = f;
		}
	}
	return __real_read(fd, buf, len);
}


/* ------------------------------------------------------------ spawning */
int
__wrap_pipe(int p[2])
{
	if (spf_pipe > 0) {
		spf_pipe--;
		errno = spf_errno;
		h_begin("spawnfault", vnow());
		h_str("call", "pipe", -1);
		h_end();
		return -1;
	}
	if (__real_pipe(p) < 0) {
		return -1;
	}
	last_pipe[0] = p[0], last_pipe[1] = p[1];
	return 0;
}

static struct life_s*
life_for(const char *uid)
{
	struct life_s *dflt = NULL;

	for (int i = 0; i < P.nlife; i++) {
		if (!strcmp(P.life[i].uid, uid)) {
			return P.life + i;
		} else if (!strcmp(P.life[i].uid, "*")) {
			dflt = P.life + i;
		}
	}
	return dflt;
}

/* the task being run: set by the periodic callback trace hook */
static char cur_task_uid[256];

int
__wrap_posix_spawn(pid_t *pid, const char *path,
		   const posix_spawn_file_actions_t *fa,
		   const posix_spawnattr_t *at,
		   char *const argv[], char *const envp[])
{
	struct life_s *lf;
	size_t ai = 0U;

	(void)fa, (void)at, (void)envp;
	if (spf_spawn > 0) {
		spf_spawn--;
		/* posix_spawn() RETURNS the error number, it does not return
		 * -1, need not set errno and leaves *pid alone */
		h_begin("spawnfault", vnow());
		h_str("call", "posix_spawn", -1);
		h_end();
		return spf_errno;
	}
	memset(&cur_spawn, 0, sizeof(cur_spawn));
	cur_spawn.active = 1;
	cur_spawn.rfd_dup = dup(last_pipe[0]);
	cur_spawn.wfd = last_pipe[1];
	cur_spawn.pid = 1000 + ++nspawns + cur_epoch * 100000;
	for (int i = 0; argv[i]; i++) {
		ai += snprintf(cur_spawn.argv + ai, sizeof(cur_spawn.argv) - ai,
			       "%s%s", i ? " " : "", argv[i]);
		if (!strcmp(argv[i], "-nd") || !strcmp(argv[i], "-n")) {
			cur_spawn.norun = 1;
		}
		if (ai >= sizeof(cur_spawn.argv)) {
			break;
		}
	}
	(void)path;
	/* scripted lifetime */
	cur_spawn.life = 0.5, cur_spawn.status = 0, cur_spawn.delay = 0.;
	if ((lf = life_for(cur_task_uid)) != NULL && lf->n) {
		int i = lf->used++ % lf->n;
		cur_spawn.life = lf->l[i].life;
		cur_spawn.status = lf->l[i].status;
		cur_spawn.delay = lf->l[i].delay;
	}
	if (cur_spawn.norun) {
		cur_spawn.life = 0.01;
		cur_spawn.status = 0;
	}
	if (nchlds < MAXCHLD) {
		chlds[nchlds++] = (struct chld_s){
			.pid = cur_spawn.pid, .t_spawn = vnow(),
			.t_exit = vnow() + cur_spawn.life,
			.delay = cur_spawn.delay,
			.status = cur_spawn.status,
			.t_stop = -1., .t_cont = -1.,
		};
		if (P.jobctl_p > 0. && cur_spawn.life > 0.01 &&
		    u01(hash3(P.seed, (uint64_t)cur_spawn.pid, 0x710)) < P.jobctl_p) {
			/* stopped somewhere in its first half, continued
			 * before it ends (being stopped does not prolong
			 * the scripted life) */
			struct chld_s *c = chlds + nchlds - 1;
			double u = u01(hash3(P.seed, (uint64_t)cur_spawn.pid, 0x711));
			double v = u01(hash3(P.seed, (uint64_t)cur_spawn.pid, 0x712));

			c->t_stop = c->t_spawn + (0.05 + 0.45 * u) * cur_spawn.life;
			c->t_cont = c->t_stop + (0.05 + 0.4 * v) * cur_spawn.life;
		}
	}
	*pid = cur_spawn.pid;
	/* spawning takes time */
	{
		double u = u01(hash3(P.seed, (uint64_t)cur_spawn.pid, 0x700));
		double v = u01(hash3(P.seed, (uint64_t)cur_spawn.pid, 0x701));
		spend(u < P.cost_p ? 0.001 + v * P.cost_max : 0.0002 + 0.0003 * v);
	}
	return 0;
}

static void
spawn_capture_done(void)
{
	static char buf[1 << 17];
	ssize_t z = 0;

	for (ssize_t r; z < (ssize_t)sizeof(buf) &&
		     (r = __real_read(cur_spawn.rfd_dup, buf + z, sizeof(buf) - z)) > 0;
	     z += r);
	__real_close(cur_spawn.rfd_dup);
	h_begin("spawn", vnow());
	h_int("pid", cur_spawn.pid);
	h_str("argv", cur_spawn.argv, -1);
	h_int("norun", cur_spawn.norun);
	h_str("task", cur_task_uid, -1);
	h_dbl("life", cur_spawn.life);
	h_int("status", cur_spawn.status);
	h_dbl("delay", cur_spawn.delay);
	h_str("vtodo", buf, z);
	h_end();
	cur_spawn.active = 0;
}


/* ------------------------------------------------------------ scheduler */
static void
apply_op(struct op_s *o)
{
	struct conn_s *c = o->c >= 0 && o->c < MAXCONN ? sconns + o->c : NULL;

	switch (o->k) {
	case OP_CONN: {
		int sv[2];
		if (c == NULL || c->used ||
		    socketpair(AF_UNIX, SOCK_STREAM, 0, sv) < 0) {
			break;
		}
		memset(c, 0, sizeof(*c));
		c->used = 1;
		c->dfd = sv[0];
		c->pfd = sv[1];
		fcntl(c->pfd, F_SETFL, O_NONBLOCK);
		c->uid = o->a;
		c->gid = o->b;
		acceptq[nacceptq++] = o->c;
		h_begin("conn", vnow());
		h_int("c", o->c);
		h_int("peer", c->uid);
		h_end();
		break;
	}
	case OP_FRAG:
		if (c && c->used) {
			char *s = o->s;
			c->nfrag = 0;
			while (s && *s && c->nfrag < 64) {
				c->frag[c->nfrag++] = strtol(s, &s, 10);
				if (*s == ',') {
					s++;
				}
			}
			c->fragi = 0;
		}
		break;
	case OP_SEND:
		if (c && c->used && c->pfd >= 0) {
			c->pend = realloc(c->pend, c->npend + o->z + 1U);
			memcpy(c->pend + c->npend, o->s, o->z);
			c->npend += o->z;
			flush_client(c);
			h_begin("send", vnow());
			h_int("c", o->c);
			h_int("n", o->z);
			h_end();
		}
		break;
	case OP_SHUTWR:
		if (c && c->used && c->pfd >= 0) {
			c->want_shutwr = 1;
			flush_client(c);
			h_begin("shutwr", vnow());
			h_int("c", o->c);
			h_end();
		}
		break;
	case OP_CLOSE:
		if (c && c->used && c->pfd >= 0) {
			drain_conn(c);
			if (c->pfd >= 0) {
				__real_close(c->pfd);
				c->pfd = -1;
			}
			c->peer_closed = 1;
			h_begin("pclose", vnow());
			h_int("c", o->c);
			h_end();
		}
		break;
	case OP_SIGNAL:
		if (nsigq < 16) {
			sigq[nsigq++] = o->a;
		}
		h_begin("signal", vnow());
		h_int("sig", o->a);
		h_end();
		break;
	case OP_CRASH:
		h_begin("crash", vnow());
		h_str("at", "event", -1);
		h_end();
		_exit(99);
	case OP_SPOOLFAULT:
		sf_k = o->a;
		sf_errno = o->b;
		snprintf(sf_kind, sizeof(sf_kind), "%s", o->kind);
		spool_calls = 0;
		h_begin("arm", vnow());
		h_str("what", "spoolfault", -1);
		h_int("kth", o->a);
		h_str("kind", o->kind, -1);
		h_end();
		break;
	case OP_SPAWNFAULT:
		if (!strcmp(o->kind, "pipe")) {
			spf_pipe = o->b;
		} else {
			spf_spawn = o->b;
		}
		spf_errno = o->a;
		break;
	case OP_STALL:
		stall_next += (double)o->a / 1000.;
		break;
	case OP_MARK:
		spool_calls = 0;
		h_begin("mark", vnow());
		h_int("id", o->a);
		h_end();
		break;
	case OP_CLOCKSTEP: {
		/* the wall clock is set DT seconds ahead or back (NTP step,
		 * date -s, resume of a suspended machine); everything the
		 * world still has in store keeps its distance in true time */
		const double dt = (double)o->a / 1000.;

		h_begin("clockstep", vnow());
		h_dbl("dt", dt);
		h_end();
		for (int i = opi; i < ope; i++) {
			P.ops[i].t += dt;
		}
		for (int i = 0; i < nchlds; i++) {
			chlds[i].t_spawn += dt;
			chlds[i].t_exit += dt;
		}
		wall_abs = 0.;
		evm_clock_step(dt);
		step_now += dt;
		break;
	}
	}
}

static int same_due_n;
static double same_due;
static const char *wake_kind = "";
static double wake_late;

static double
host_next_wake(double now, double due, int ioready)
{
	double pt = opi < ope ? P.ops[opi].t : 1e300;
	double w;

	/* watchdog against hangs inside SUT code */
	alarm(20);
	/* client side housekeeping between iterations */
	for (int i = 0; i < MAXCONN; i++) {
		if (sconns[i].used && (sconns[i].npend || sconns[i].want_shutwr)) {
			flush_client(sconns + i);
		}
	}

	if (pt < now) {
		pt = now;
	}
	wake_late = 0.;
	if (ioready || nacceptq || nsigq) {
		w = now + 0.0001 + 0.0004 * u01(hash3(P.seed, evm_iter(), 0x10));
		wake_kind = "io";
	} else if (due <= pt) {
		/* timer driven wake-up: how late are we? */
		uint64_t key = (uint64_t)(due * 1000. + 0.5);
		double u, v;

		if (due == same_due) {
			same_due_n++;
		} else {
			same_due = due, same_due_n = 0;
		}
		u = u01(hash3(P.seed, key, 0x100 + same_due_n));
		v = u01(hash3(P.seed, key, 0x200 + same_due_n));
		if (due < now) {
			due = now;
		}
		if (u < P.exact_p && same_due_n == 0) {
			w = due;
			wake_kind = "exact";
		} else if (u < P.exact_p + P.late_p) {
			w = due + 0.001 + v * P.late_max;
			wake_kind = "late";
		} else {
			w = due + 0.001 + v * P.jit_max;
			wake_kind = "timer";
		}
		wake_late = w - due;
		/* pending child exits do wake the loop up on time though
		 * (SIGCHLD); handled below by capping at the exit time */
	} else if (pt < 1e299) {
		w = pt + 0.0001 + 0.0009 * u01(hash3(P.seed, (uint64_t)(pt * 1000.), 0x300));
		wake_kind = "op";
	} else {
		/* nothing left to do: the plan always ends in crash/signal */
		h_begin("idle-end", now);
		h_end();
		return -1;
	}
	/* an exiting child wakes the loop (SIGCHLD) at exit + delay */
	for (int i = 0; i < nchlds; i++) {
		double te = chlds[i].t_exit + chlds[i].delay;
		if (!chlds[i].delivered && te > now && te < w) {
			w = te + 0.0001;
			wake_kind = "sigchld";
		}
		/* so does one that is stopped or continued */
		if (!chlds[i].delivered && chlds[i].t_stop >= 0.) {
			double tj = chlds[i].jc == 0 ? chlds[i].t_stop
				: chlds[i].jc == 1 ? chlds[i].t_cont : -1.;
			if (tj > now && tj < w) {
				w = tj + 0.0001;
				wake_kind = "sigchld";
			}
		}
	}
	if (stall_next > 0.) {
		w += stall_next;
		stall_next = 0.;
		wake_kind = "stall";
	}
	/* apply everything the outside world did up to W */
	evm_set_now(w);
	while (opi < ope && P.ops[opi].t <= w) {
		struct op_s *o = P.ops + opi++;

		if (o->k == OP_CLOCKSTEP && !o->b && due <= w) {
			/* a step noticed while an expiry is outstanding loses
			 * that occurrence (known finding C04/clock-step): the
			 * campaigns step the clock at quiet moments only, this
			 * one is put off until nothing is overdue */
			o->t = w + 0.0005;
			opi--;
			for (int i = opi; i + 1 < ope && P.ops[i].t > P.ops[i + 1].t; i++) {
				struct op_s tmp = P.ops[i];
				P.ops[i] = P.ops[i + 1], P.ops[i + 1] = tmp;
			}
			if (P.ops[opi].k == OP_CLOCKSTEP && P.ops[opi].t > w) {
				break;
			}
			continue;
		}
		apply_op(o);
		if (step_now != 0.) {
			w += step_now;
			step_now = 0.;
			wake_kind = "clockstep";
			if (!o->b) {
				/* a quiet moment it was: whatever else the world
				 * has in store (a stall that would carry this
				 * wake-up past an expiry) waits for the next one */
				break;
			}
		}
		if (stall_next > 0.) {
			w += stall_next;
			stall_next = 0.;
			wake_kind = "stall";
			evm_set_now(w);
		}
	}
	if (evm_iter() > 20000UL) {
		h_begin("iter-cap", w);
		h_end();
		_exit(97);
	}
	return w;
}

static int
host_io_ready(int fd, int events)
{
	struct pollfd p = {.fd = fd, .events = POLLIN};

	(void)events;
	if (fd == listen_fd) {
		return nacceptq ? EV_READ : 0;
	}
	return poll(&p, 1, 0) > 0 ? EV_READ : 0;
}

static int
host_reap(double w, int *pid, int *st)
{
	int b = -1;

	/* stops and continuations first: they precede the exit */
	for (int i = 0; i < nchlds; i++) {
		struct chld_s *c = chlds + i;

		if (c->delivered || c->t_stop < 0. || c->jc >= 2) {
			continue;
		}
		if (c->jc == 0 && c->t_stop <= w) {
			c->jc = 1;
			*pid = c->pid;
			*st = (SIGSTOP << 8) | 0x7f;
		} else if (c->jc == 1 && c->t_cont <= w) {
			c->jc = 2;
			*pid = c->pid;
			*st = 0xffff;
		} else {
			continue;
		}
		h_begin("jobctl", w);
		h_int("pid", *pid);
		h_int("status", *st);
		h_end();
		return 1;
	}
	for (int i = 0; i < nchlds; i++) {
		if (chlds[i].delivered ||
		    chlds[i].t_exit + chlds[i].delay > w) {
			continue;
		}
		if (b < 0 || chlds[i].t_exit < chlds[b].t_exit) {
			b = i;
		}
	}
	if (b < 0) {
		return 0;
	}
	chlds[b].delivered = 1;
	*pid = chlds[b].pid;
	*st = chlds[b].status;
	h_begin("exit", w);
	h_int("pid", *pid);
	h_int("status", *st);
	h_dbl("texit", chlds[b].t_exit);
	h_end();
	return 1;
}

static int
host_next_signal(double w)
{
	(void)w;
	return nsigq ? sigq[--nsigq] : 0;
}

static unsigned long
host_io_perm(unsigned long it)
{
	return hash3(P.seed, it, 0x400);
}

static void
host_iter(unsigned long it, double w)
{
	h_begin("iter", w);
	h_int("n", it);
	h_str("wk", wake_kind, -1);
	h_end();
}

static void
host_contract(const char *what)
{
	h_begin("contract", vnow());
	h_str("what", what, -1);
	h_end();
}

static void
host_start(const char *kind, void *w)
{
	tr_startstop("start", kind, w);
}

static void
host_stop(const char *kind, void *w)
{
	tr_startstop("stop", kind, w);
}


/* ------------------------------------------------------------ the SUT */
#define main	echsd_main
#include "echsd.c"
#undef main

static const char*
task_uid_of(void *w)
{
	_task_t t = w;
	const char *n;

	if (t == NULL || t->t == NULL) {
		return "?";
	}
	n = obint_name(t->t->oid);
	return n ?: "?";
}

static int
periodic_is_task(void *w)
{
	ev_periodic *p = w;
	return p->cb == task_cb || p->cb == unsched;
}

static void
tr_resched(ev_periodic *w, double now, double ret)
{
	_task_t t = (void*)w;

	h_begin("resched", now);
	h_str("uid", task_uid_of(w), -1);
	h_dbl("ret", ret);
	h_int("owner", (long)(int)echs_task_owner(t->t));
	h_int("fin", w->reschedule_cb == NULL);
	h_int("past", w->cb == unsched);
	h_int("nrun", t->nrun);
	if (resched_all_ctx) {
		/* not an expiry: libev rescheduling all periodics */
		h_str("ctx", "all", -1);
	}
	h_end();
}

static void
tr_cb(const char *kind, void *w, int revents)
{
	(void)revents;
	h_begin("cb", vnow());
	h_str("w", kind, -1);
	if (!strcmp(kind, "periodic") && periodic_is_task(w)) {
		ev_periodic *p = w;
		snprintf(cur_task_uid, sizeof(cur_task_uid), "%s", task_uid_of(w));
		h_str("uid", cur_task_uid, -1);
		h_str("fn", p->cb == unsched ? "unsched" : "task_cb", -1);
	} else if (!strcmp(kind, "child")) {
		ev_child *c = w;
		h_int("pid", c->rpid);
	} else if (!strcmp(kind, "io")) {
		ev_io *i = w;
		struct conn_s *c = conn_by_dfd(i->fd);
		if (c) {
			h_int("c", c - sconns);
		} else if (i->fd == listen_fd) {
			h_str("fn", "accept", -1);
		}
	} else if (!strcmp(kind, "timer")) {
		h_str("fn", "cptim", -1);
	}
	h_end();
}

static void
tr_cb_done(const char *kind, void *w)
{
	(void)kind, (void)w;
	drain_all();
}

static void
tr_startstop(const char *what, const char *kind, void *w)
{
	if (strcmp(kind, "periodic")) {
		return;
	}
	h_begin(what, vnow());
	h_str("uid", task_uid_of(w), -1);
	if (*what == 's' && what[2] == 'a') {
		_task_t t = w;
		h_int("owner", (long)(int)echs_task_owner(t->t));
		h_int("maxsimul", t->t->max_simul);
	}
	h_end();
}

/* structural validator for live queue files: shares no code with the SUT.
 * LF-lines, balanced BEGIN/END, starts BEGIN:VCALENDAR, ends END:VCALENDAR,
 * every VEVENT has UID and DTSTART. */
static const char*
validate_ics(const char *b, size_t z)
{
	int depth = 0, in_ev = 0, has_uid = 0, has_dt = 0, nline = 0;
	int seen_end = 0;
	const char *p = b, *e = b + z;

	if (z == 0U) {
		return "empty file";
	}
	while (p < e) {
		const char *nl = memchr(p, '\n', e - p);
		size_t lz;

		if (nl == NULL) {
			return "last line not terminated";
		}
		lz = nl - p;
		if (lz && p[lz - 1U] == '\r') {
			lz--;
		}
		if (seen_end) {
			return "content after END:VCALENDAR";
		}
		if (nline == 0 && (lz != 15U || memcmp(p, "BEGIN:VCALENDAR", 15U))) {
			return "does not start with BEGIN:VCALENDAR";
		}
		if (lz > 6U && !memcmp(p, "BEGIN:", 6U)) {
			depth++;
			if (lz == 12U && !memcmp(p + 6, "VEVENT", 6U)) {
				if (in_ev) {
					return "nested VEVENT";
				}
				in_ev = 1, has_uid = has_dt = 0;
			}
		} else if (lz > 4U && !memcmp(p, "END:", 4U)) {
			depth--;
			if (depth < 0) {
				return "END without BEGIN";
			}
			if (lz == 10U && !memcmp(p + 4, "VEVENT", 6U)) {
				if (!in_ev) {
					return "END:VEVENT outside VEVENT";
				}
				if (!has_uid) {
					return "VEVENT without UID";
				}
				if (!has_dt) {
					return "VEVENT without DTSTART";
				}
				in_ev = 0;
			} else if (lz == 13U && !memcmp(p + 4, "VCALENDAR", 9U)) {
				if (depth != 0) {
					return "END:VCALENDAR inside component";
				}
				seen_end = 1;
			}
		} else if (in_ev && lz > 4U && !memcmp(p, "UID:", 4U)) {
			has_uid = 1;
		} else if (in_ev && lz > 7U && !memcmp(p, "DTSTART", 7U) &&
			   (p[7] == ':' || p[7] == ';')) {
			has_dt = 1;
		} else if (*p != ' ' && *p != '\t' && memchr(p, ':', lz) == NULL) {
			return "content line without colon";
		}
		nline++;
		p = nl + 1;
	}
	if (!seen_end) {
		return "no END:VCALENDAR";
	}
	if (depth) {
		return "unbalanced BEGIN/END";
	}
	return NULL;
}

static void
spool_check(const char *after)
{
	static char buf[1 << 19];
	DIR *d;
	int bad = 0;

	if ((d = __real_opendir(spooldir)) == NULL) {
		return;
	}
	for (struct dirent *e; (e = __real_readdir(d));) {
		const char *why;
		size_t nz = strlen(e->d_name);
		ssize_t z = 0;
		int fd;

		if (strncmp(e->d_name, "echsq_", 6U) || nz < 10U ||
		    strcmp(e->d_name + nz - 4U, ".ics")) {
			continue;
		}
		if ((fd = __real_openat(dirfd(d), e->d_name, O_RDONLY)) < 0) {
			continue;
		}
		for (ssize_t r; z < (ssize_t)sizeof(buf) &&
			     (r = __real_read(fd, buf + z, sizeof(buf) - z)) > 0;
		     z += r);
		__real_close(fd);
		if ((why = validate_ics(buf, z)) != NULL) {
			h_begin("spoolcheck", vnow());
			h_int("ok", 0);
			h_str("after", after, -1);
			h_str("file", e->d_name, -1);
			h_str("why", why, -1);
			h_int("kc", spool_calls_total);
			h_str("data", buf, z > 4000 ? 4000 : z);
			h_end();
			bad++;
		}
	}
	__real_closedir(d);
	if (!bad) {
		h_begin("spoolcheck", vnow());
		h_int("ok", 1);
		h_end();
	}
}


/* ------------------------------------------------------------ driver */
static void
die(const char *msg)
{
	fprintf(stderr, "simd: %s\n", msg);
	exit(2);
}

static void
free_plan(void)
{
	for (int i = 0; i < P.nops; i++) {
		free(P.ops[i].s);
	}
	free(P.ops);
	memset(&P, 0, sizeof(P));
}

static int
load_plan(const char *fn)
{
	FILE *f = fopen(fn, "r");
	char *line = NULL;
	size_t lz = 0U;
	ssize_t n;

	if (f == NULL) {
		return -1;
	}
	free_plan();
	P.ops = calloc(MAXOPS, sizeof(*P.ops));
	P.late_p = 0.05, P.late_max = 5.0, P.exact_p = 0.02, P.jit_max = 0.05;
	while ((n = getline(&line, &lz, f)) > 0) {
		char *tok[8];
		int nt = 0;
		char *sv = NULL;

		if (line[n - 1] == '\n') {
			line[--n] = '\0';
		}
		if (!n || *line == '#') {
			continue;
		}
		for (char *t = strtok_r(line, " ", &sv); t && nt < 8;
		     t = strtok_r(NULL, " ", &sv)) {
			tok[nt++] = t;
		}
		if (!strcmp(tok[0], "seed") && nt >= 2) {
			P.seed = strtoull(tok[1], NULL, 10);
		} else if (!strcmp(tok[0], "rundir") && nt >= 2) {
			snprintf(P.rundir, sizeof(P.rundir), "%s", tok[1]);
		} else if (!strcmp(tok[0], "daemonuid") && nt >= 2) {
			P.daemon_uid = atoi(tok[1]);
		} else if (!strcmp(tok[0], "jobctl") && nt >= 2) {
			P.jobctl_p = atof(tok[1]);
		} else if (!strcmp(tok[0], "spawncost") && nt >= 3) {
			P.cost_p = atof(tok[1]);
			P.cost_max = atof(tok[2]);
		} else if (!strcmp(tok[0], "late") && nt >= 5) {
			P.late_p = atof(tok[1]);
			P.late_max = atof(tok[2]);
			P.exact_p = atof(tok[3]);
			P.jit_max = atof(tok[4]);
		} else if (!strcmp(tok[0], "user") && nt >= 6 && P.nusr < MAXUSR) {
			struct usr_s *u = P.usr + P.nusr++;
			u->uid = atoi(tok[1]);
			u->gid = atoi(tok[2]);
			snprintf(u->name, sizeof(u->name), "%s", tok[3]);
			snprintf(u->home, sizeof(u->home), "%s", tok[4]);
			snprintf(u->shell, sizeof(u->shell), "%s", tok[5]);
		} else if (!strcmp(tok[0], "life") && nt >= 3 && P.nlife < MAXLIFE) {
			/* life <uidhex|*> l:st:dl,l:st:dl,... */
			struct life_s *l = P.life + P.nlife++;
			char *s = tok[2];
			if (!strcmp(tok[1], "*")) {
				strcpy(l->uid, "*");
			} else {
				l->uid[unhex(l->uid, tok[1])] = '\0';
			}
			while (*s && l->n < 16) {
				l->l[l->n].life = strtod(s, &s);
				if (*s == ':') {
					l->l[l->n].status = strtol(s + 1, &s, 10);
				}
				if (*s == ':') {
					l->l[l->n].delay = strtod(s + 1, &s);
				}
				l->n++;
				if (*s == ',') {
					s++;
				}
			}
		} else if (!strcmp(tok[0], "readfrag") && nt >= 2) {
			char *s = tok[1];
			while (*s && P.nreadfrag < 64) {
				P.readfrag[P.nreadfrag++] = strtol(s, &s, 10);
				if (*s == ',') {
					s++;
				}
			}
		} else if (!strcmp(tok[0], "dirperm") && nt >= 2) {
			P.dirperm = strtoull(tok[1], NULL, 10);
		} else if (!strcmp(tok[0], "epoch") && nt >= 2 && P.nepoch < 16) {
			P.ep_start[P.nepoch] = atof(tok[1]);
			P.ep_op0[P.nepoch] = P.nops;
			P.nepoch++;
		} else if (!strcmp(tok[0], "op") && nt >= 3 && P.nops < MAXOPS) {
			struct op_s *o = P.ops + P.nops;
			o->t = atof(tok[1]);
			o->c = -1;
			if (!strcmp(tok[2], "conn") && nt >= 6) {
				o->k = OP_CONN, o->c = atoi(tok[3]);
				o->a = atol(tok[4]), o->b = atol(tok[5]);
			} else if (!strcmp(tok[2], "send") && nt >= 5) {
				o->k = OP_SEND, o->c = atoi(tok[3]);
				o->s = malloc(strlen(tok[4]) / 2U + 1U);
				o->z = unhex(o->s, tok[4]);
			} else if (!strcmp(tok[2], "frag") && nt >= 5) {
				o->k = OP_FRAG, o->c = atoi(tok[3]);
				o->s = strdup(tok[4]);
			} else if (!strcmp(tok[2], "shutwr") && nt >= 4) {
				o->k = OP_SHUTWR, o->c = atoi(tok[3]);
			} else if (!strcmp(tok[2], "close") && nt >= 4) {
				o->k = OP_CLOSE, o->c = atoi(tok[3]);
			} else if (!strcmp(tok[2], "signal") && nt >= 4) {
				o->k = OP_SIGNAL, o->a = atoi(tok[3]);
			} else if (!strcmp(tok[2], "crash")) {
				o->k = OP_CRASH;
			} else if (!strcmp(tok[2], "spoolfault") && nt >= 6) {
				o->k = OP_SPOOLFAULT, o->a = atol(tok[3]);
				snprintf(o->kind, sizeof(o->kind), "%s", tok[4]);
				o->b = errno_of(tok[5]);
			} else if (!strcmp(tok[2], "spawnfault") && nt >= 6) {
				o->k = OP_SPAWNFAULT;
				snprintf(o->kind, sizeof(o->kind), "%s", tok[3]);
				o->a = errno_of(tok[4]), o->b = atol(tok[5]);
			} else if (!strcmp(tok[2], "stall") && nt >= 4) {
				o->k = OP_STALL, o->a = (long)(atof(tok[3]) * 1000.);
			} else if (!strcmp(tok[2], "clockstep") && nt >= 4) {
				/* clockstep MS [any]: "any" = even while an expiry is outstanding */
				o->k = OP_CLOCKSTEP, o->a = atol(tok[3]);
				o->b = nt >= 5 && !strcmp(tok[4], "any");
			} else if (!strcmp(tok[2], "mark") && nt >= 4) {
				o->k = OP_MARK, o->a = atol(tok[3]);
			} else {
				continue;
			}
			P.nops++;
		}
	}
	P.ep_op0[P.nepoch] = P.nops;
	free(line);
	fclose(f);
	return P.nepoch ? 0 : -1;
}

const char *__asan_default_options(void);
__attribute__((used)) const char*
__asan_default_options(void)
{
	return "exitcode=77:detect_leaks=0:abort_on_error=0:"
		"detect_stack_use_after_return=0:handle_abort=0:"
		"allocator_may_return_null=1";
}

const char *__ubsan_default_options(void);
__attribute__((used)) const char*
__ubsan_default_options(void)
{
	return "halt_on_error=1:exitcode=77:print_stacktrace=1";
}

static void
run_epoch(int ep, const char *histfn)
{
/* in the forked child */
	char logfn[600];
	char *argv[] = {"echsd", "-n", NULL};
	int lfd, rc;

	cur_epoch = ep;
	opi = P.ep_op0[ep], ope = P.ep_op0[ep + 1];
	hist_fd = __real_open(histfn, O_WRONLY | O_APPEND | O_CREAT, 0644);
	hist_rundir = P.rundir;
	hist_rundirz = strlen(P.rundir);
	hist_seq = ep * 10000000UL;
	snprintf(logfn, sizeof(logfn), "%s/epoch%d.log", P.rundir, ep);
	if ((lfd = __real_open(logfn, O_WRONLY | O_CREAT | O_TRUNC, 0644)) >= 0) {
		dup2(lfd, 2);
		__real_close(lfd);
	}
	signal(SIGPIPE, SIG_IGN);

	evm_host = (struct evm_host){
		.next_wake = host_next_wake, .io_ready = host_io_ready,
		.reap = host_reap, .next_signal = host_next_signal,
		.io_perm = host_io_perm, .tr_iter = host_iter,
		.tr_resched = tr_resched, .tr_cb = tr_cb,
		.tr_cb_done = tr_cb_done, .tr_start = host_start,
		.tr_stop = host_stop, .contract = host_contract,
		.clock = vnow, .tr_resched_all = tr_resched_all,
	};
	wall_abs = 0.;
	evm_reset(P.ep_start[ep]);
	h_begin("epoch", vnow());
	h_int("n", ep);
	h_end();
	alarm(20);
	scrub_stack();
	rc = echsd_main(2, argv);
	h_begin("main-returned", vnow());
	h_int("rc", rc);
	h_end();
	_exit(rc ? 90 : 0);
}

static int
run_plan(const char *script, const char *histfn)
{
	int hfd;

	if (load_plan(script) < 0) {
		return 2;
	}
	/* fresh history */
	if ((hfd = __real_open(histfn, O_WRONLY | O_CREAT | O_TRUNC, 0644)) < 0) {
		return 2;
	}
	__real_close(hfd);

	for (int ep = 0; ep < P.nepoch; ep++) {
		pid_t p;
		int st;
		const char *how = "?";
		int code = 0;

		fflush(NULL);
		if ((p = fork()) == 0) {
			run_epoch(ep, histfn);
			_exit(0);
		} else if (p < 0) {
			return 2;
		}
		while (waitpid(p, &st, 0) < 0 && errno == EINTR);
		if (WIFEXITED(st)) {
			code = WEXITSTATUS(st);
			switch (code) {
			case 0: how = "clean"; break;
			case 99: how = "crash-plan"; break;
			case 97: how = "iter-cap"; break;
			case 90: how = "main-error"; break;
			case 77: how = "sanitizer"; break;
			default: how = "exit"; break;
			}
		} else if (WIFSIGNALED(st)) {
			code = WTERMSIG(st);
			how = code == SIGALRM ? "hang"
				: code == SIGABRT ? "abort" : "signal";
		}
		hist_fd = __real_open(histfn, O_WRONLY | O_APPEND);
		hist_seq = ep * 10000000UL + 9999990UL;
		h_begin("end", 0.);
		h_int("epoch", ep);
		h_str("how", how, -1);
		h_int("code", code);
		h_end();
		__real_close(hist_fd);
		hist_fd = -1;
	}
	return 0;
}

int
main(int argc, char *argv[])
{
	no_aslr(argv);
	if (argc >= 4 && !strcmp(argv[1], "run")) {
		return run_plan(argv[2], argv[3]);
	} else if (argc >= 2 && !strcmp(argv[1], "serve")) {
		char line[2048];

		setvbuf(stdout, NULL, _IOLBF, 0);
		while (fgets(line, sizeof(line), stdin)) {
			char *sp = strchr(line, ' ');
			char *nl = strchr(line, '\n');
			int rc;

			if (nl) {
				*nl = '\0';
			}
			if (sp == NULL) {
				puts("done 2");
				continue;
			}
			*sp++ = '\0';
			rc = run_plan(line, sp);
			printf("done %d\n", rc);
		}
		return 0;
	}
	die("usage: simd run SCRIPT HISTORY | simd serve");
	return 2;
}
