/* vhash.c -- find UID strings whose 32-bit echse hash (the task oid) shares
 * B low bits, for B in 4..18: such groups force put_task_slot() to grow the
 * daemon's task table.  Output: JSON {"bits": [[uid,...],...]} */
#include <stdio.h>
#include <stdlib.h>
#include <string.h>
#include <stdint.h>
#include "hash.h"

#define NC	(1U << 21)

int
main(void)
{
	static uint32_t hx[NC];
	static uint32_t head[1U << 18];
	static uint32_t next[NC];
	const int bits[] = {4, 6, 8, 10, 12, 14, 16, 18};
	char buf[64];

	for (uint32_t i = 0; i < NC; i++) {
		int n = snprintf(buf, sizeof(buf), "c%x@sim", i);
		hx[i] = hash(buf, n);
	}
	printf("{");
	for (size_t b = 0; b < sizeof(bits) / sizeof(*bits); b++) {
		const uint32_t m = (1U << bits[b]) - 1U;
		int ngrp = 0;

		memset(head, 0xff, sizeof(head));
		printf("%s\"%d\":[", b ? "," : "", bits[b]);
		/* chain by the low bits[b] bits, emit chains whose members
		 * differ exactly at bit bits[b] (so the table grows to
		 * 2^(bits+1) and no further) */
		for (uint32_t i = 0; i < NC && ngrp < 12; i++) {
			uint32_t k = hx[i] & m & 0x3ffffU;
			uint32_t j;
			int found = 0;

			for (j = head[k]; j != 0xffffffffU; j = next[j]) {
				if ((hx[j] & m) == (hx[i] & m) &&
				    ((hx[j] ^ hx[i]) >> bits[b] & 1U) &&
				    hx[j] != hx[i]) {
					printf("%s[\"c%x@sim\",\"c%x@sim\"]",
					       ngrp ? "," : "", j, i);
					ngrp++;
					found = 1;
					break;
				}
			}
			if (!found) {
				next[i] = head[k];
				head[k] = i;
			}
		}
		printf("]");
	}
	printf("}\n");
	return 0;
}
