/* simp.c -- libechse parser and streams under a scripted caller
 *
 * usage: simp < SCRIPT
 *
 * SCRIPT is a sequence of jobs, one result block per job on stdout:
 *
 *   parse LOOP MODE HEXBYTES SIZES      deliver HEXBYTES in pieces of SIZES
 *        LOOP  d = echsd socket loop, f = file/stdin loop (echsd reload,
 *              echsx, echsq)
 *        MODE  x = every piece in an exactly sized heap block that is freed
 *                  after its pulls (over-reads become ASan reports)
 *              b = one persistent 4 KiB/64 KiB buffer like the programs use
 *        SIZES comma separated, cycled; 0 = rest
 *   strm NOCC HEXBYTES SCHEDULE         build the vmux over all tasks of the
 *        calendar and run SCHEDULE against it: a string over
 *        p (pop) k (peek) c<n> (clone, drain n from clone) s (serialise)
 *
 * Every job runs in a forked child so that a sanitizer report or a hang
 * is one classified result ("!! crash ..."), not the end of the batch. */
#include <stdlib.h>
#include <stdio.h>
#include <string.h>
#include <stdint.h>
#include <unistd.h>
#include <signal.h>
#include <fcntl.h>
#include <sys/wait.h>
#include <time.h>
#include "echse.h"
#include "evical.h"
#include "evstrm.h"
#include "intern.h"
#include "dt-strpf.h"
#include "nummapstr.h"
#include "strlst.h"

/* the one clock the library reads (DTSTAMP of what it writes): pinned, so that
 * one job is one exactly repeatable output */
time_t
time(time_t *t)
{
	const time_t r = (time_t)1791000000;

	if (t != NULL) {
		*t = r;
	}
	return r;
}

static int
hexval(int c)
{
	return c >= '0' && c <= '9' ? c - '0'
		: c >= 'a' && c <= 'f' ? c - 'a' + 10 : -1;
}

static size_t
unhex(char *dst, const char *src)
{
	size_t n = 0U;
	for (; hexval(src[0]) >= 0 && hexval(src[1]) >= 0; src += 2) {
		dst[n++] = (char)(hexval(src[0]) << 4 | hexval(src[1]));
	}
	return n;
}

static void
put_esc(const char *k, const char *s)
{
	printf(" %s=", k);
	if (s == NULL) {
		printf("-");
		return;
	}
	putchar('"');
	for (; *s; s++) {
		unsigned char c = *s;
		if (c < 0x20 || c >= 0x7f || c == '"' || c == '\\') {
			printf("\\x%02x", c);
		} else {
			putchar(c);
		}
	}
	putchar('"');
}

static void
put_nms(const char *k, nummapstr_t x)
{
	const char *s;
	uintptr_t n;

	if (!x) {
		printf(" %s=-", k);
	} else if ((s = nummapstr_str(x))) {
		put_esc(k, s);
	} else if ((n = nummapstr_num(x)) != NUMMAPSTR_NAN) {
		printf(" %s=#%lu", k, (unsigned long)n);
	}
}

static void
put_inst(echs_instant_t i)
{
	char b[64];
	size_t n = dt_strf(b, sizeof(b), i);
	b[n] = '\0';
	printf("%s", b);
}

static void
dump_task(echs_task_t t, int nocc)
{
	const char *un = t->oid ? obint_name(t->oid) : NULL;

	put_esc("uid", un);
	put_esc("cmd", t->cmd);
	put_nms("owner", t->owner);
	put_nms("u", t->run_as.u);
	put_nms("g", t->run_as.g);
	put_esc("wd", t->run_as.wd);
	put_esc("sh", t->run_as.sh);
	put_esc("desc", t->desc);
	put_esc("org", t->org);
	printf(" att=[");
	if (t->att) {
		for (size_t j = 0; j < t->att->nl; j++) {
			put_esc("a", t->att->l[j]);
		}
	}
	printf("]");
	put_esc("in", t->in);
	put_esc("out", t->out);
	put_esc("err", t->err);
	printf(" mail=%u%u%u%u%u%u", t->mailrun, t->mrunset, t->mailout,
	       t->moutset, t->mailerr, t->merrset);
	printf(" maxsimul=%u umask=%o typ=%u", t->max_simul, t->umsk, t->vtod_typ);
	switch (t->vtod_typ) {
	case VTOD_TYP_TIMEOUT:
		printf(" timeout=%ld", (long)t->timeout.d);
		break;
	case VTOD_TYP_DUE:
		printf(" due=");
		put_inst(t->due);
		break;
	case VTOD_TYP_COMPL:
		printf(" compl=");
		put_inst(t->compl);
		break;
	default:
		break;
	}
	if (t->strm) {
		printf(" occ=[");
		for (int i = 0; i < nocc; i++) {
			echs_event_t e = echs_evstrm_pop(t->strm);
			if (echs_event_0_p(e)) {
				printf(" END");
				break;
			}
			printf(" ");
			put_inst(e.from);
			printf("+%ld", (long)e.dur.d);
		}
		printf("]");
	} else {
		printf(" nostrm");
	}
}

static int nins;

static int
handle(echs_instruc_t ins, int nocc)
{
/* returns 1 to continue pulling */
	switch (ins.v) {
	case INSVERB_SCHE:
		if (ins.t == NULL) {
			return 1;
		}
		printf("I%d SCHE", nins++);
		dump_task(ins.t, nocc);
		printf("\n");
		free_echs_task(ins.t);
		return 1;
	case INSVERB_RESC:
		printf("I%d RESC", nins++);
		put_esc("uid", ins.o ? obint_name(ins.o) : NULL);
		printf("\n");
		return 1;
	case INSVERB_UNSC:
		printf("I%d UNSC", nins++);
		put_esc("uid", ins.o ? obint_name(ins.o) : NULL);
		printf(" from=");
		put_inst(ins.from);
		printf(" to=");
		put_inst(ins.to);
		printf("\n");
		return 1;
	default:
		return 0;
	}
}

static int
next_size(const int *sz, int nsz, int *k, size_t rest)
{
	int s = nsz ? sz[(*k)++ % nsz] : 0;
	if (s <= 0 || (size_t)s > rest) {
		s = (int)rest;
	}
	return s;
}

static void
job_parse(char loop, char mode, const char *data, size_t dz,
	  const int *sz, int nsz, int nocc)
{
	ical_parser_t pp = NULL;
	static char pbuf[65536];
	size_t off = 0U;
	int k = 0;
	char *blk = NULL;
	const size_t bufz = loop == 'd' ? 4096U : 65536U;

	nins = 0;
	while (off < dz) {
		size_t n = next_size(sz, nsz, &k, dz - off);
		const char *p;

		if (n > bufz) {
			n = bufz;
		}
		if (mode == 'x') {
			free(blk);
			blk = malloc(n ?: 1U);
			memcpy(blk, data + off, n);
			p = blk;
		} else {
			memcpy(pbuf, data + off, n);
			p = pbuf;
		}
		off += n;
		if (echs_evical_push(&pp, p, n) < 0) {
			printf("pushfail\n");
			break;
		}
		while (handle(echs_evical_pull(&pp), nocc));
	}
	/* end of input */
	if (loop == 'd') {
		/* recv() returned 0: feed_cmd() pushes an empty chunk of the
		 * same buffer, then pulls, then shut_cmd() does the last pull */
		if (pp != NULL) {
			const char *p = mode == 'x' ? (blk ? blk : (blk = malloc(1U))) : pbuf;
			if (mode == 'x') {
				/* an empty piece: nothing of it may be read */
				free(blk);
				blk = malloc(1U);
				p = blk + 1;
			}
			(void)echs_evical_push(&pp, p, 0U);
			while (handle(echs_evical_pull(&pp), nocc));
		}
	} else {
		/* read() returned 0: pull again without pushing */
		while (handle(echs_evical_pull(&pp), nocc));
	}
	if (pp != NULL) {
		echs_instruc_t ins = echs_evical_last_pull(&pp);
		if (ins.v == INSVERB_SCHE && ins.t != NULL) {
			printf("L SCHE");
			dump_task(ins.t, nocc);
			printf("\n");
			free_echs_task(ins.t);
		} else if (ins.v != INSVERB_UNK) {
			printf("L verb=%d\n", ins.v);
		}
	}
	free(blk);
	printf("end nins=%d\n", nins);
}

static void
put_ev(const char *tag, echs_event_t e)
{
	printf("%s ", tag);
	if (echs_event_0_p(e)) {
		printf("END\n");
		return;
	}
	put_inst(e.from);
	printf(" %s\n", e.oid ? obint_name(e.oid) : "-");
}

static void
job_strm(const char *data, size_t dz, const char *sched)
{
	ical_parser_t pp = NULL;
	echs_evstrm_t strms[256];
	size_t ns = 0U;
	echs_evstrm_t m;
	int nul = open("/dev/null", O_WRONLY);

	if (echs_evical_push(&pp, data, dz) < 0) {
		printf("pushfail\n");
		return;
	}
	for (echs_instruc_t ins;
	     (ins = echs_evical_pull(&pp)).v == INSVERB_SCHE;) {
		if (ins.t && ins.t->strm && ns < 256U) {
			strms[ns++] = ins.t->strm;
		}
	}
	if (pp != NULL) {
		(void)echs_evical_last_pull(&pp);
	}
	printf("nstrm=%zu\n", ns);
	if ((m = echs_evstrm_vmux(strms, ns)) == NULL) {
		printf("nomux\nend\n");
		return;
	}
	for (const char *s = sched; *s; s++) {
		switch (*s) {
		case 'p':
			put_ev("pop", echs_evstrm_pop(m));
			break;
		case 'k':
			put_ev("peek", echs_evstrm_next(m));
			break;
		case 's':
			echs_evstrm_seria(nul, m);
			printf("seria\n");
			break;
		case 'c': {
			int n = strtol(s + 1, (char**)&s, 10);
			echs_evstrm_t c = clone_echs_evstrm(m);
			s--;
			if (c == NULL) {
				printf("clone NULL\n");
				break;
			}
			printf("clone\n");
			for (int i = 0; i < n; i++) {
				put_ev(" cpop", echs_evstrm_pop(c));
			}
			free_echs_evstrm(c);
			break;
		}
		default:
			break;
		}
	}
	printf("end\n");
}

#include <sys/personality.h>
/* (see simcommon.h: address space randomisation is switched off) */
static void
no_aslr(char **argv)
{
	const int p = personality(0xffffffffUL);

	if (p >= 0 && !(p & ADDR_NO_RANDOMIZE) && getenv("SIM_NOASLR_TRIED") == NULL) {
		setenv("SIM_NOASLR_TRIED", "1", 1);
		if (personality((unsigned long)p | ADDR_NO_RANDOMIZE) >= 0) {
			execv("/proc/self/exe", argv);
		}
	}
}

#include "simp_rt.h"

const char *__asan_default_options(void);
__attribute__((used)) const char*
__asan_default_options(void)
{
	return "exitcode=77:detect_leaks=0:abort_on_error=0:handle_abort=0:detect_stack_use_after_return=0:"
		"allocator_may_return_null=1:symbolize=0";
}

const char *__ubsan_default_options(void);
__attribute__((used)) const char*
__ubsan_default_options(void)
{
	return "halt_on_error=1:exitcode=77:print_stacktrace=1";
}

static char cur_data[1 << 20];
static size_t cur_dz;

static void
do_job(char *line)
{
	char *tok[8];
	int nt = 0;
	char *sv = NULL;

	for (char *t = strtok_r(line, " ", &sv); t && nt < 8;
	     t = strtok_r(NULL, " ", &sv)) {
		tok[nt++] = t;
	}
	if (!nt) {
		return;
	}
	if (!strcmp(tok[0], "input") && nt >= 2) {
		cur_dz = unhex(cur_data, tok[1]);
	} else if (!strcmp(tok[0], "parse") && nt >= 4) {
		/* parse LOOP MODE SIZES [NOCC] on the current input */
		int sz[256], nsz = 0;
		char *s = tok[3];
		int nocc = nt >= 5 ? atoi(tok[4]) : 12;

		if (nt >= 6 && atoi(tok[5]) > 0) {
			alarm(atoi(tok[5]));
		}

		while (*s && nsz < 256) {
			sz[nsz++] = strtol(s, &s, 10);
			if (*s == ',') {
				s++;
			}
		}
		job_parse(tok[1][0], tok[2][0], cur_data, cur_dz, sz, nsz, nocc);
	} else if (!strcmp(tok[0], "strm") && nt >= 2) {
		job_strm(cur_data, cur_dz, tok[1]);
	} else if (!strcmp(tok[0], "rt") && nt >= 3) {
		/* rt K N [SECONDS]: own watchdog */
		if (nt >= 4 && atoi(tok[3]) > 0) {
			alarm(atoi(tok[3]));
		}
		job_rt(cur_data, cur_dz, atoi(tok[1]), atoi(tok[2]));
	}
}

#include <sys/mman.h>

int
main(int argc, char *argv[])
{
	char **lines = NULL;
	size_t nlines = 0U, zlines = 0U;
	char *line = NULL;
	size_t lz = 0U;
	ssize_t n;
	volatile long *cur;
	size_t i = 0U;

	(void)argc;
	no_aslr(argv);
	while ((n = getline(&line, &lz, stdin)) > 0) {
		if (line[n - 1] == '\n') {
			line[--n] = '\0';
		}
		if (nlines >= zlines) {
			zlines = zlines ? zlines * 2U : 256U;
			lines = realloc(lines, zlines * sizeof(*lines));
		}
		lines[nlines++] = strdup(line);
	}
	cur = mmap(NULL, sizeof(*cur), PROT_READ | PROT_WRITE,
		   MAP_SHARED | MAP_ANONYMOUS, -1, 0);
	setvbuf(stdout, NULL, _IOFBF, 1 << 16);

	/* jobs run in one child until one of them crashes or hangs; the
	 * parent classifies that job and starts a new child for the rest */
	while (i < nlines) {
		pid_t p;
		int st;

		fflush(stdout);
		if ((p = fork()) == 0) {
			const char *keep = getenv("SIMP_STDERR");
			size_t lastin = (size_t)-1;

			if (!keep) {
				int errfd = open("/dev/null", O_WRONLY);
				dup2(errfd, 2);
			}
			/* the input in force at job I */
			for (size_t j = 0U; j < i; j++) {
				if (!strncmp(lines[j], "input ", 6U)) {
					lastin = j;
				}
			}
			if (lastin != (size_t)-1) {
				char *cp = strdup(lines[lastin]);
				do_job(cp);
				free(cp);
			}
			for (size_t j = i; j < nlines; j++) {
				*cur = (long)j;
				if (!strncmp(lines[j], "input ", 6U)) {
					do_job(lines[j]);
					continue;
				}
				alarm(10);
				printf("== job %zu\n", j);
				do_job(lines[j]);
				printf("== ok\n");
				fflush(stdout);
			}
			_exit(0);
		}
		while (waitpid(p, &st, 0) < 0);
		if (WIFEXITED(st) && WEXITSTATUS(st) == 0) {
			break;
		}
		/* job *cur did it */
		if (WIFEXITED(st)) {
			printf("== job %ld\n!! crash exit=%d\n", *cur, WEXITSTATUS(st));
		} else {
			printf("== job %ld\n!! crash signal=%d\n", *cur, WTERMSIG(st));
		}
		i = (size_t)*cur + 1U;
	}
	fflush(stdout);
	return 0;
}
