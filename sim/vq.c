/* vq.c -- the real echsq.c as a producer of wire bytes (echsq --dry-run),
 * with time() pinned so that DTSTAMP is reproducible (VQ_TIME env). */
#include <stdlib.h>
#include <time.h>

time_t __wrap_time(time_t *t);
time_t
__wrap_time(time_t *t)
{
	const char *e = getenv("VQ_TIME");
	time_t r = e ? (time_t)atol(e) : (time_t)1893456000;
	if (t) {
		*t = r;
	}
	return r;
}

const char *__asan_default_options(void);
__attribute__((used)) const char*
__asan_default_options(void)
{
	return "exitcode=77:detect_leaks=0";
}

#include "echsq.c"
