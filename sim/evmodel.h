/* evmodel.h -- host interface of the virtual-time libev model
 *
 * The model implements the subset of the libev 4.33 API that echsd.c and
 * echsx.c use, against the struct layouts of the real <ev.h>.  Everything
 * that is nondeterministic in a real loop (what time it is when poll
 * returns, which descriptors are readable, which children have exited,
 * which signals arrived, the order of io events) is asked of the host. */
#if !defined INCLUDED_evmodel_h_
#define INCLUDED_evmodel_h_
#include <ev.h>

struct evm_host {
	/* Called at the top of every iteration.  NOW is the loop time of the
	 * previous iteration, NEXT_DUE the earliest timer/periodic expiry
	 * (1e300 if none), IO_READY non-0 if some active io watcher is
	 * readable right now.  Returns the loop time W >= NOW of this
	 * iteration.  The host applies all external events with time <= W
	 * (client bytes, connections, child exits, signals, crashes) before
	 * returning.  Return < 0 to make ev_run() return (plan exhausted). */
	double (*next_wake)(double now, double next_due, int io_ready);
	/* level-triggered readiness of FD for EVENTS (EV_READ/EV_WRITE) */
	int (*io_ready)(int fd, int events);
	/* fetch next exited child deliverable in this iteration, 0 if none */
	int (*reap)(double w, int *pid, int *status);
	/* fetch next pending signal number, 0 if none */
	int (*next_signal)(double w);
	/* the wall clock right now (ev_time()); it runs on while callbacks
	 * execute, so it may be ahead of the loop time.  NULL: loop time. */
	double (*clock)(void);
	/* a key for permuting io events of iteration ITER */
	unsigned long (*io_perm)(unsigned long iter);
	/* trace hooks (may be NULL) */
	void (*tr_iter)(unsigned long iter, double w);
	void (*tr_resched)(ev_periodic *w, double now, double ret);
	/* all periodics are about to be / have been rescheduled outside of
	 * an expiry (libev's periodics_reschedule() after ev_loop_fork()) */
	void (*tr_resched_all)(int begin);
	void (*tr_cb)(const char *kind, void *w, int revents);
	void (*tr_cb_done)(const char *kind, void *w);
	void (*tr_start)(const char *kind, void *w);
	void (*tr_stop)(const char *kind, void *w);
	/* contract violation by the SUT (reschedule in the past ...) */
	void (*contract)(const char *what);
};

extern struct evm_host evm_host;

/* reset the model (fresh loop, time NOW) */
extern void evm_reset(double now);
extern double evm_now(void);
/* advance the loop time early (host applies external events at W) */
extern void evm_set_now(double now);
extern unsigned long evm_iter(void);
/* the wall clock has been stepped by DT seconds (either direction): the loop
 * time moves along, timers (monotonic) keep their distance, and the next
 * iteration reschedules all periodics like libev does after a time jump */
extern void evm_clock_step(double dt);
/* number of active watchers of a kind: 'i' 't' 'p' 's' 'c' */
extern int evm_nactive(int kind);

#endif	/* INCLUDED_evmodel_h_ */
