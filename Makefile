# Build the simulators from /repo's current working tree.
REPO ?= /repo
SRC := $(REPO)/src
B ?= /verif/build
SIM ?= /verif/sim
CC := gcc -std=gnu11
SAN ?= -fsanitize=address,undefined -fno-sanitize=shift-base -fno-sanitize-recover=undefined
OPT ?= -O1
CPPFLAGS := -DHAVE_CONFIG_H -D_POSIX_C_SOURCE=200809L -D_XOPEN_SOURCE=700 -D_DEFAULT_SOURCE \
	-U_FORTIFY_SOURCE -D_FORTIFY_SOURCE=0 -I$(SRC) -I$(SIM)
CFLAGS := $(OPT) -g -fno-omit-frame-pointer -w $(SAN)

LIBSRC := instant range dt-strpf hash intern state task strlst bufpool event \
	evstrm evical evrrul evmrul evfilt tzob scale shift tzraw bitint echse-genuid
LIBOBJ := $(LIBSRC:%=$(B)/lib/%.o)
GEN := evical-gp.c evrrul-gp.c evmrul-gp.c evmeth-gp.c evcomp-gp.c \
	echsd.yucc echsx.yucc echsq.yucc echse.yucc version.c

WRAP_D := time geteuid getegid gethostname readlink stat mkdir open opendir readdir closedir \
	bind listen accept getsockopt setsockopt recv write sendfile openat close renameat \
	unlinkat read pipe posix_spawn getpwuid getpwnam
WRAPFLAGS_D := $(WRAP_D:%=-Wl,--wrap=%)

.PHONY: all build gen conf clean
all: build
build: gen $(B)/simd $(B)/vq $(B)/simp $(B)/simx $(B)/uidcoll.json conf

gen:
	@mkdir -p $(B)/lib
	@$(MAKE) -s -C $(SRC) $(GEN) >/dev/null

$(B)/lib/%.o: $(SRC)/%.c $(wildcard $(SRC)/*.h) $(wildcard $(SRC)/*-gp.c) $(wildcard $(SRC)/*.erf)
	@$(CC) $(CPPFLAGS) $(CFLAGS) -c -o $@ $<

$(B)/logger.o: $(SRC)/logger.c
	@$(CC) $(CPPFLAGS) $(CFLAGS) -c -o $@ $<

$(B)/version.o: $(SRC)/version.c
	@$(CC) $(CPPFLAGS) $(CFLAGS) -c -o $@ $<

$(B)/evmodel.o: $(SIM)/evmodel.c $(SIM)/evmodel.h
	@$(CC) $(CPPFLAGS) $(CFLAGS) -c -o $@ $<

$(B)/simd.o: $(SIM)/simd.c $(SIM)/simcommon.h $(SIM)/evmodel.h $(SRC)/echsd.c $(SRC)/echsd.yucc $(wildcard $(SRC)/*.h)
	@$(CC) $(CPPFLAGS) $(CFLAGS) -c -o $@ $<

$(B)/simd: $(B)/simd.o $(B)/evmodel.o $(B)/logger.o $(LIBOBJ)
	@$(CC) $(CFLAGS) $(WRAPFLAGS_D) -o $@ $^ -lm

WRAP_X := time clock_gettime alarm sigaction kill getrusage setuid setgid getpwuid getpwnam getgrnam \
	chdir open mkstemp unlink read write sendfile splice pipe close posix_spawn \
	posix_spawn_file_actions_adddup2 waitpid
WRAPFLAGS_X := $(WRAP_X:%=-Wl,--wrap=%)

$(B)/simx.o: $(SIM)/simx.c $(SIM)/simcommon.h $(SIM)/evmodel.h $(SRC)/echsx.c $(SRC)/echsx.yucc $(wildcard $(SRC)/*.h)
	@$(CC) $(CPPFLAGS) -DHAVE_VERSION_H $(CFLAGS) -c -o $@ $<

$(B)/simx: $(B)/simx.o $(B)/evmodel.o $(B)/logger.o $(B)/version.o $(LIBOBJ)
	@$(CC) $(CFLAGS) $(WRAPFLAGS_X) -o $@ $^ -lm

$(B)/simp.o: $(SIM)/simp.c $(SIM)/simp_rt.h $(wildcard $(SRC)/*.h)
	@$(CC) $(CPPFLAGS) $(CFLAGS) -c -o $@ $<

$(B)/simp: $(B)/simp.o $(LIBOBJ)
	@$(CC) $(CFLAGS) -o $@ $^ -lm

# echsq as wire-byte producer (--dry-run), with a pinned clock
$(B)/vq.o: $(SIM)/vq.c $(SRC)/echsq.c $(SRC)/echsq.yucc $(wildcard $(SRC)/*.h)
	@$(CC) $(CPPFLAGS) -DSTANDALONE -DHAVE_VERSION_H $(CFLAGS) -c -o $@ $<

$(B)/vq: $(B)/vq.o $(B)/version.o $(LIBOBJ)
	@$(CC) $(CFLAGS) -Wl,--wrap=time -o $@ $^ -lm

# UID strings with colliding task hashes (for C11)
$(B)/vhash: $(SIM)/vhash.c $(B)/lib/hash.o
	@gcc -O2 -w -I$(SRC) -o $@ $(SIM)/vhash.c $(SRC)/hash.c
$(B)/uidcoll.json: $(B)/vhash
	@$(B)/vhash > $@

# libev model conformance: same scenarios on the installed libev and on the model
$(B)/conf_real: $(SIM)/evmodel_conf.c
	gcc -O1 -g -w -I$(SIM) -o $@ $< -lev
$(B)/conf_model: $(SIM)/evmodel_conf.c $(SIM)/evmodel.c $(SIM)/evmodel.h
	gcc -O1 -g -w -DCONF_MODEL -I$(SIM) -o $@ $(SIM)/evmodel_conf.c $(SIM)/evmodel.c
conf: $(B)/conf_real $(B)/conf_model
	@cd $(B) && timeout 60 ./conf_real > conf_real.txt && timeout 60 ./conf_model > conf_model.txt \
	  && diff conf_real.txt conf_model.txt >/dev/null && echo "libev model conformance: OK" \
	  || { echo "libev model conformance: MISMATCH"; diff conf_real.txt conf_model.txt; exit 1; }

clean:
	rm -rf $(B)
