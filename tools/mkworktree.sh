#!/bin/sh
# usage: mkworktree.sh DIR
# A scratch git worktree of /repo at HEAD with the (untracked) build system
# outputs copied in, so that `make -C DIR && make -C DIR/test check` works.
set -e
d="$1"
git -C /repo worktree add --detach "$d" HEAD >/dev/null 2>&1
rsync -a --ignore-existing --exclude .git --exclude '*.o' --exclude '*.lo' --exclude '.libs' \
      --exclude '*.la' --exclude 'test/*.log' --exclude 'test/*.trs' /repo/ "$d"/
# configured paths point at /repo: re-run config.status there
(cd "$d" && sed -i "s#/repo#$d#g" config.status 2>/dev/null; ./config.status >/dev/null 2>&1 || true)
echo "$d"
