#!/usr/bin/env python3
"""(re)generate /verif/MANIFEST.json from runner.cli.PROPS and the NA table"""
import json
import sys
sys.path.insert(0, '/verif')
from runner import cli

NA = {
    'C01': 'pure function of (DTSTART, RRULE): no schedule, clock, fault or interleaving can change the answer; deciding it needs an independent RFC 5545 expander (differential testing), which is another technique. Its last clause (daemon consumption = unroll) is exercised by C04, whose arithmetic task family has independently computed occurrence times.',
    'C02': 'pure function of the event text (EXDATE/EXRULE/RDATE algebra); the streaming filter has state but no nondeterministic caller.',
    'C07': 'pure function of (instant, zoneinfo file); nothing a simulator could schedule or fault.',
    'C08': 'pure arithmetic on instants. (The daemon-side conversion instant_to_tstamp is cross-checked against timegm() on every spawn of the C04 campaign, reported there.)',
    'C09': 'a per-input termination/memory-safety property of the rule engine; all simulated runs are sanitizer-instrumented and watchdogged so crashes and hangs in reached code surface as R-CRASHFREE, but that is not a search over the rule language.',
    'C15': 'finite pure function (calendar conversion tables); exhaustive enumeration, not simulation, decides it.',
    'C16': 'pure function of the rule text (ordering/bounds of one stream).',
    'C17': 'pure function (Easter/SHIFT arithmetic).',
    'C18': 'pure function (text round-trips of instants and durations).',
    'C19': 'pure data-structure semantics of the bitset containers; finite enumeration decides it.',
    'C20': 'pure function (sort stability).',
}
NOTYET = 'claimed in DESIGN.md but its check is not registered yet in this revision (framework under construction)'
CLAIM = ['C03', 'C04', 'C05', 'C06', 'C10', 'C11', 'C12', 'C13', 'C14']

LEVEL_TEXT = {
    'C04': 'Seeded search over complete simulated daemon life-cycles (real echsd.c under a virtual-time libev model): add/replace/cancel histories, late and exact wake-ups, stalls past several occurrences, executor exits landing in the same loop iteration as expiries, restarts. Every run is checked against an independent model (occurrence times computed with timegm arithmetic). A clean batch is evidence, not proof; exploration is the honest level for a property quantified over schedules and histories.',
    'C11': 'Seeded search over request histories of 2-5 peers (incl. root) with colliding task hashes, foreign-UID adds, owner/setuid spoofing, cancels, listings, 33-90 concurrently open connections, hang-ups and restarts; every reply, listing, checkpoint and executor request is checked against a per-user map model.',
    'C12': 'Seeded search over executor-lifetime patterns relative to the recurrence period, exit-notification delays, batching of exits and expiries, several limited and unlimited tasks in one daemon, restarts, executors stopped and continued in mid-run (job control); true concurrency is known to the simulator, so the bound is checked exactly at every spawn.',
}
LEVEL_TEXT['C05'] = ('Two seeded campaigns. (1) simd: every task field and COUNT/UNTIL/INTERVAL arithmetic through user file -> real echsq -> real echsd '
                     '-> checkpoint -> crash/restart -> executor request, with k occurrences consumed in between, against independently computed expectations. '
                     '(2) simp round trip (stage C05RT): calendars over the whole RRULE language x consumption prefixes k; consume k, write with the real serialiser, '
                     're-read, compare field by field and occurrence by occurrence with an unwritten control copy. Exploration: a clean batch is evidence, not proof.')
NOTE = {
    'C05': 'Four recorded known findings (RDATE lists, several RRULEs, EXDATE/EXRULE, SHIFT are not faithfully serialisable): replayed from witnesses, printed as KNOWN-FINDING, their classes judged loosely (fields, crash-freeness, well-formedness) in the campaigns. Stage 2 uses the code itself as oracle and cannot see recurrence results that are wrong in the same way before and after a round trip.',
    'C04': 'Trusted: the libev model (conformance-checked against libev 4.33 at build time), the runner\'s arithmetic occurrence computation, the executor stub. Wall-clock steps: backward steps at quiet moments are simulated; what forward steps do is the recorded known finding clock-step.',
    'C11': 'Trusted: libev model, simulated passwd/peer-credential layer. Full 32-bit hash collisions between UIDs are excluded by assumption.',
    'C12': 'Trusted: libev model, scripted executor lifetimes (the real echsx --no-run path is C13\'s business).',
}


def main():
    checks = []
    for pid in sorted(cli.PROPS):
        cfg = cli.PROPS[pid]
        if cfg.get('stage_of'):
            # a further campaign of another property's check
            continue
        checks.append({
            'property_id': pid,
            'quick_cmd': '/verif/check %s --tier quick' % pid,
            'thorough_cmd': '/verif/check %s --tier thorough' % pid,
            'evidence_file': '/verif/evidence/%s.json' % pid,
            'replay_cmd_template': '/verif/check --replay {path}',
            'engine': cfg['engine'],
            'level_claimed': {'category': cfg['level'], 'text': LEVEL_TEXT.get(pid, cfg.get('level_text', '')),
                              'design_ref': 'DESIGN.md section 6 (%s)' % pid},
            'level_note': NOTE.get(pid, cfg.get('level_note', '')),
            'technique': cfg.get('technique', 'deterministic simulation with fault injection: seeded search over schedules and fault sequences, reference-model oracle, minimised replayable plans'),
        })
    na = []
    for pid in ['C%02d' % i for i in range(1, 21)]:
        if pid in cli.PROPS:
            continue
        if pid in NA:
            na.append({'property_id': pid, 'reason': NA[pid]})
        else:
            na.append({'property_id': pid, 'reason': NOTYET})
    engines = [
        {'name': 'simd', 'path': '/verif/sim/simd.c', 'serves_properties': [p for p in sorted(cli.PROPS) if cli.PROPS[p]['engine'] == 'simd'],
         'kind_free_text': 'echsd.c #included unmodified; libev replaced by a virtual-time model; libc calls interposed with -Wl,--wrap; one forked process per daemon life'},
        {'name': 'simx', 'path': '/verif/sim/simx.c', 'serves_properties': [p for p in sorted(cli.PROPS) if cli.PROPS[p]['engine'] == 'simx'],
         'kind_free_text': 'echsx.c #included unmodified; scripted job actor on real pipes/files; virtual alarm clock'},
        {'name': 'simp', 'path': '/verif/sim/simp.c', 'serves_properties': sorted(set(cli.PROPS[p].get('stage_of', p) for p in cli.PROPS if cli.PROPS[p]['engine'] == 'simp')),
         'kind_free_text': 'libechse parser and streams under scripted chunk deliveries and call schedules'},
    ]
    m = {
        'version': 1,
        'setup_cmd': 'make -C /verif -j16 build',
        'hooks': {'guard': 'ECHSE_VERIF',
                  'enable': 'no hook is needed: echsd.c/echsx.c/echsq.c are #included unmodified into harness translation units, libev is replaced by a model at link time and libc calls are interposed with -Wl,--wrap; nothing in /repo is guarded',
                  'baseline_off_cmd': 'make -C /repo -j16 >/dev/null 2>&1; make -C /repo/test check',
                  'source_commits': [], 'add_only': True},
        'engines': [e for e in engines if e['serves_properties']],
        'checks': checks,
        'not_applicable': na,
        'notes': 'Genuine defects found by these checks were repaired in /repo as "fix:" commits and are listed in /verif/known_findings.jsonl; see DESIGN.md section 8.',
    }
    json.dump(m, open('/verif/MANIFEST.json', 'w'), indent=1)
    print('wrote MANIFEST.json with %d checks, %d not_applicable' % (len(checks), len(na)))


if __name__ == '__main__':
    main()
