#include <stdio.h>
#include <stdlib.h>
#include <string.h>
#define HAVE_CONFIG_H 1
#include SCALE_C
static const char *doc[] = {" 2 5 7 10 13 15 18 21 24 26 29", " 2 5 7 10 13 16 18 21 24 26 29", " 2 5 8 10 13 16 19 21 24 27 29", " 2 5 8 11 13 16 19 21 24 27 30"};
int main(int argc, char **argv)
{
	int bad = 0, check = argc > 1;
	for (int t = 0; t < 4; t++) {
		char buf[256] = "";
		for (unsigned y = 1; y <= 30; y++) if (__hij_inty_p(t, 0, y)) sprintf(buf + strlen(buf), " %u", y);
		fprintf(stderr, "type %d intercalary:%s %s\n", t + 1, buf, strcmp(buf, doc[t]) ? "MISMATCH with the documented list" : "(as documented)");
		bad += !!strcmp(buf, doc[t]);
		for (int e = 0; e < 2; e++) {
			struct ymd_s prev = mjd2hij(t, e, 999U);
			for (unsigned j = 1000U; j < 120000U; j++) {
				struct ymd_s h = mjd2hij(t, e, j);
				printf("%d %d %u %u-%u-%u\n", t, e, j, h.y, h.m, h.d);
				if (!check) { prev = h; continue; }
				if (hij2mjd(t, e, h) != j && bad++ < 5) fprintf(stderr, "roundtrip t%d e%d j=%u -> %u-%u-%u -> %u\n", t, e, j, h.y, h.m, h.d, hij2mjd(t,e,h));
				int ok = (h.y == prev.y && h.m == prev.m && h.d == prev.d + 1) || (h.d == 1 && ((h.m == prev.m + 1 && h.y == prev.y) || (h.m == 1 && prev.m == 12 && h.y == prev.y + 1)) && (prev.d == 29 || prev.d == 30));
				if (!ok && bad++ < 10) fprintf(stderr, "succ t%d e%d %u-%u-%u after %u-%u-%u\n", t, e, h.y, h.m, h.d, prev.y, prev.m, prev.d);
				if ((h.m < 1 || h.m > 12 || h.d < 1 || h.d > 30) && bad++ < 10) fprintf(stderr, "range %u-%u-%u\n", h.y, h.m, h.d);
				if (h.d == 30 && h.m % 2 == 0 && !(h.m == 12 && __hij_inty_p(t, e, h.y)) && bad++ < 10) fprintf(stderr, "day30 in %u-%u\n", h.y, h.m);
				if (h.d == 1 && prev.d == 29 && prev.m % 2 == 1 && bad++ < 10) fprintf(stderr, "odd month of 29 days %u-%u\n", prev.y, prev.m);
				if (h.d == 1 && h.m == 1 && prev.m == 12 && (prev.d == 30) != !!__hij_inty_p(t, e, prev.y) && bad++ < 10) fprintf(stderr, "year %u ends on %u, intercalary=%d\n", prev.y, prev.d, __hij_inty_p(t, e, prev.y));
				if (__ndim_hij(t, e, h.y, h.m) < h.d && bad++ < 10) fprintf(stderr, "ndim(%u,%u)=%u < day %u\n", h.y, h.m, __ndim_hij(t,e,h.y,h.m), h.d);
				prev = h;
			}
		}
	}
	fprintf(stderr, "bad=%d\n", bad);
	return bad != 0;
}
