/* measure what libev 4.33 does with periodics and timers when the wall
 * clock is stepped (needs CAP_SYS_TIME; steps +S s and back) */
#include <stdio.h>
#include <time.h>
#include <unistd.h>
#include <ev.h>
static ev_periodic pa, pb;
static ev_timer t1;
static double base;
static ev_tstamp ra(ev_periodic *w, ev_tstamp now){ printf("  res(PA) now=%+.2f at=%+.2f\n", now-base, ev_periodic_at(w)-base); return base + 2.0 + (now > base + 2.0 ? 1000. : 0.); }
static ev_tstamp rb(ev_periodic *w, ev_tstamp now){ printf("  res(PB) now=%+.2f at=%+.2f\n", now-base, ev_periodic_at(w)-base); return base + 20.0; }
static void ca(EV_P_ ev_periodic *w, int r){ printf("  cb(PA) evnow=%+.2f\n", ev_now(EV_A)-base); }
static void cb(EV_P_ ev_periodic *w, int r){ printf("  cb(PB)\n"); }
static void ct(EV_P_ ev_timer *w, int r){ printf("  cb(T1) evnow=%+.2f\n", ev_now(EV_A)-base); }
static int step(double s){ struct timespec ts; clock_gettime(CLOCK_REALTIME,&ts); ts.tv_sec += (long)s; return clock_settime(CLOCK_REALTIME,&ts); }
int main(int argc, char **argv){
	struct ev_loop *l = ev_default_loop(0);
	double S = 5.0;
	base = ev_now(l);
	ev_periodic_init(&pa, ca, 0., 0., ra); ev_periodic_start(l, &pa);   /* due at base+2 */
	ev_periodic_init(&pb, cb, 0., 0., rb); ev_periodic_start(l, &pb);   /* due at base+20 */
	ev_timer_init(&t1, ct, 3.0, 0.); ev_timer_start(l, &t1);            /* 3 s from now, monotonic */
	printf("iteration 1 (nothing due)\n"); ev_run(l, EVRUN_NOWAIT);
	printf("step +%.0f s: %s\n", S, step(S) ? "FAILED" : "ok");
	printf("iteration 2\n"); ev_run(l, EVRUN_NOWAIT);
	printf("iteration 3\n"); ev_run(l, EVRUN_NOWAIT);
	printf("step -%.0f s: %s\n", S, step(-S) ? "FAILED" : "ok");
	printf("iteration 4\n"); ev_run(l, EVRUN_NOWAIT);
	printf("iteration 5 (blocking until something is due)\n"); ev_run(l, EVRUN_ONCE);
	printf("  evnow=%+.2f\n", ev_now(l)-base);
	return 0;
}
