#!/usr/bin/env python3
"""Determinism proof on a large sample (DESIGN 10.1).

For every campaign the first N runs of a VERIF_SEED are executed twice, in
two fresh interpreter processes with different worker counts and different
PYTHONHASHSEED, and the per-run history hashes are compared seed by seed.
One seed must be one execution: any difference is printed and makes the tool
exit 1.

usage: determinism.py [--runs N] [--seeds S1,S2,..] [PROP...]
  child mode (internal): determinism.py --child PROP STAGE SEED RUNS WORKERS OUT"""
import json
import os
import subprocess
import sys
import time

sys.path.insert(0, '/verif')


def child(prop, stage, seed, runs, workers, out):
    from runner import cli, engine
    cfg = cli.PROPS[stage if stage != '-' else prop]
    res = {}
    for r in engine.campaign(stage if stage != '-' else prop, cfg['profile'], seed, 'quick', 1e9, runs,
                             cfg.get('gopts'), cfg.get('mopts'), workers):
        res[str(r['seed'])] = [r.get('hash'), sorted(set(v['rule'] + ' ' + v['sig'] for v in r.get('viol', []))),
                               r.get('machinery')]
    json.dump(res, open(out, 'w'))


def main(argv):
    if argv and argv[0] == '--child':
        child(argv[1], argv[2], int(argv[3]), int(argv[4]), int(argv[5]), argv[6])
        return 0
    runs = 600
    seeds = [1, 20261003, 987654321]
    props = []
    i = 0
    while i < len(argv):
        if argv[i] == '--runs':
            runs = int(argv[i + 1])
            i += 2
        elif argv[i] == '--seeds':
            seeds = [int(x) for x in argv[i + 1].split(',')]
            i += 2
        else:
            props.append(argv[i])
            i += 1
    from runner import cli
    if not cli.build():
        return 2
    todo = []
    for p in props or sorted(k for k in cli.PROPS if not cli.PROPS[k].get('stage_of')):
        todo.append((p, '-'))
        for st in cli.STAGES.get(p, []):
            todo.append((p, st))
    bad = 0
    summary = []
    for prop, stage in todo:
        n = runs if prop != 'C06' else max(20, runs // 20)
        for seed in seeds:
            outs = []
            t0 = time.time()
            for k, (workers, hs) in enumerate([(16, '0'), (5, '12345')]):
                out = '/tmp/det.%d.%s.%s.%d.%d.json' % (os.getpid(), prop, stage, seed, k)
                env = dict(os.environ, PYTHONHASHSEED=hs)
                subprocess.run([sys.executable, __file__, '--child', prop, stage, str(seed), str(n), str(workers), out],
                               env=env, check=True, stdout=subprocess.DEVNULL)
                outs.append(json.load(open(out)))
                os.unlink(out)
            a, b = outs
            diff = [s for s in a if a[s] != b.get(s)] + [s for s in b if s not in a]
            mach = sum(1 for s in a if a[s][2])
            line = '%s%s seed=%d: %d runs twice (16 and 5 workers, PYTHONHASHSEED 0 and 12345): %d differ, %d harness failures, %.0f s' % (
                prop, '/' + stage if stage != '-' else '', seed, len(a), len(diff), mach, time.time() - t0)
            print(line, flush=True)
            summary.append(line)
            for s in diff[:5]:
                print('   seed %s: %r vs %r' % (s, a.get(s), b.get(s)))
            bad += len(diff)
    with open('/verif/evidence/determinism.txt', 'w') as f:
        f.write('\n'.join(summary) + '\n')
    return 1 if bad else 0


if __name__ == '__main__':
    sys.exit(main(sys.argv[1:]))
