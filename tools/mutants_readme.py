#!/usr/bin/env python3
"""Write /verif/mutants/README.md from the last result of every breaking
change in /verif/mutants/results.jsonl."""
import glob
import json
import os

res = {}
tests = {}
for l in open('/verif/mutants/results.jsonl'):
    r = json.loads(l)
    if r.get('repo_tests'):
        tests[r['mutant']] = r['repo_tests']
    elif r['mutant'] in tests:
        r['repo_tests'] = tests[r['mutant']]
    res[r['mutant']] = r
names = [os.path.basename(f)[:-6] for f in sorted(glob.glob('/verif/mutants/*.patch'))]
names += ['seeded-' + os.path.basename(os.path.dirname(f)) for f in sorted(glob.glob('/verif/seeded/*/patch.diff'))]
out = ['# Breaking changes the checks are run against', '',
       'Regenerate: `python3 tools/run_mutants.py [--tests] [--budget S] [PATTERN...]` (applies each patch to /repo\'s',
       'working tree, runs `/verif/check <property> --budget S --no-min`, expects exit 1, undoes the patch), then',
       '`python3 tools/mutants_readme.py`.', '',
       '* `revert-<commit>-*`: the reverse of one `fix:` commit in /repo (the defect the check found comes back).',
       '* `Cnn-*`: hand-written changes aimed at one clause of the property.',
       '* `seeded-Cnn-a`: written by a sub-agent that saw only the property text and a private copy of the repository',
       '  (seeded/<id>/: patch.diff, its own demonstration, meta.json).',
       '* `masked/`: changes that turned out not to violate the property they were aimed at (reason below); not run.', '',
       '| change | property | repo tests with the change | result | violations reported (first two) | wall s |',
       '|---|---|---|---|---|---|']
NOTES = {
    'revert-e606767-negative-monthday-beyond-month':
        'needs BYMONTHDAY=-30/-31 meeting a month too short for it and a round trip from exactly the bogus occurrence; '
        'found by the thorough C05RT sweep with seed 303 (34 000 runs), not within a 65 s run',
    'revert-6c03b71-hijri-table-read-before-start':
        'needs a tabulated Hijri rule of a particular shape (e.g. MONTHLY;INTERVAL=3;BYMONTHDAY=-24) consumed past the end of the table (k >= 128); '
        'found by a 400 s run of the C05RT stage, caught once in three 65 s runs',
}
nc = nm = 0
for n in names:
    r = res.get(n)
    if not r:
        out.append('| %s | | | not run | | |' % n)
        continue
    masked = None
    if n.startswith('seeded-'):
        try:
            masked = json.load(open('/verif/seeded/%s/meta.json' % n[7:])).get('masked_by')
        except OSError:
            pass
    for p, c in r['checks'].items():
        st = 'caught' if c['rc'] == 1 else ('INVALID' if r.get('invalid') else 'MISSED')
        if st == 'MISSED' and masked:
            st = 'no longer a violation: masked by fix %s (see meta.json)' % masked
        if st == 'MISSED' and n in NOTES:
            st = 'MISSED in the quick budget (%s)' % NOTES[n]
        nc += st == 'caught'
        nm += st.startswith('MISSED')
        out.append('| %s | %s | %s | %s | %s | %s |' % (n, p, r.get('repo_tests', 'as before the fix (a revert)' if n.startswith('revert-') else 'see seeded/*/meta.json' if n.startswith('seeded-') else 'not run').replace('#', '').strip() or '-', st,
                                                   '; '.join(c['sigs'][:2]), c['wall']))
out += ['', '%d caught, %d missed.' % (nc, nm), '',
        'Changes with failing repository tests (C03-swap-lt-operands, C03-peek-consumes, C05-count-without-cached,',
        'C05-send-rrul-omits-interval, C14-dtend-operands-swapped) are kept as sensitivity probes but would also be stopped by the test suite.', '',
        '## masked/', '',
        '* `revert-bac2339-retire-at-first-child-exit`: the later fix 0bed004 made unsched() safe to call while executions',
        '  are still running (it only takes the task off the table), so retiring at the first child exit no longer frees the',
        '  task; C04 does not say when between the last start and the last exit a finished task leaves the queue.',
        '* `C10-stash-bound-off-by-one`: a 2048 byte line is then processed (truncated) instead of skipped, in every',
        '  partition alike; no overrun (the line store is never NUL-terminated by the copy). Not a C10 violation.',
        '* `revert-a586754` (6-bit week mask): since 7e8aa89 anchors weeks on Mondays the slip drops Sundays regardless of DTSTART -',
        '  wrong in the same way before and after a round trip, i.e. a pure recurrence-engine (C01) matter that C05\'s oracle cannot see.',
        '* `revert-fe603f0` (COUNT rounded up to whole sets): since ed961e2 the fillers stop at the slot bound, which they clamp to the',
        '  remaining COUNT themselves; the truncation in refill() is redundant now.',
        '* (dropped) `C10-esccpy-keeps-fold-blank`: changes how a TAB fold is unfolded, again in every partition alike.', '']
open('/verif/mutants/README.md', 'w').write('\n'.join(out))
print('%d caught, %d missed' % (nc, nm))
