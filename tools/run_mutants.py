#!/usr/bin/env python3
"""Sensitivity self-test: apply each breaking change to /repo's working tree,
run the quick-style check of the property it targets for a short budget,
expect exit 1, and undo the change straight afterwards.

usage: run_mutants.py [--budget S] [--tests] [--scratch] [PATTERN...]
  --scratch   work on a private copy of /repo (/tmp/repo-mut, own build and output directories) instead of
              /repo's working tree, so that other checks can run against /repo meanwhile
Results are appended to /verif/mutants/results.jsonl and summarised in
/verif/mutants/README.md."""
import glob
import json
import os
import re
import subprocess
import sys
import time

REPO = '/repo'
MUT = '/verif/mutants'
ENV = dict(os.environ)


def sh(cmd, **kw):
    return subprocess.run(cmd, shell=True, stdout=subprocess.PIPE, stderr=subprocess.STDOUT, text=True, env=ENV, **kw)


# defects first seen by one property's campaign whose inputs that campaign has to
# avoid since (classes of recorded known findings); the check that still reaches them
ALSO = {'951a5a3': ['C05'], 'a33a199': ['C05']}


def fixed_map():
    m = {}
    for line in open('/verif/known_findings.jsonl'):
        mm = re.match(r'fixed: property=(C\d+) ([0-9a-f]{7})', line)
        if mm:
            m[mm.group(2)] = mm.group(1)
    return m


def props_for(name, fm):
    mm = re.match(r'(C\d\d)-', name)
    if mm:
        return [mm.group(1)]
    mm = re.match(r'revert-([0-9a-f]{7})-', name)
    if mm and mm.group(1) in ALSO:
        return ALSO[mm.group(1)]
    if mm and mm.group(1) in fm:
        return [fm[mm.group(1)]]
    return []


def clean():
    # (never `git clean`: the build system's outputs in /repo are untracked files)
    sh('git -C %s checkout -- .' % REPO)


def main(argv):
    budget = 25
    tests = False
    pats = []
    i = 0
    while i < len(argv):
        if argv[i] == '--budget':
            budget = int(argv[i + 1])
            i += 2
        elif argv[i] == '--tests':
            tests = True
            i += 1
        elif argv[i] == '--scratch':
            global REPO
            sh('rm -rf /tmp/repo-mut /tmp/build-mut /tmp/out-mut; cp -a /repo /tmp/repo-mut; git -C /tmp/repo-mut checkout -q -- .; mkdir -p /tmp/out-mut')
            REPO = '/tmp/repo-mut'
            ENV.update(VERIF_REPO=REPO, VERIF_BUILD='/tmp/build-mut', VERIF_OUT='/tmp/out-mut')
            i += 1
        else:
            pats.append(argv[i])
            i += 1
    if sh('git -C %s status --porcelain --untracked-files=no' % REPO).stdout.strip():
        print('refusing: /repo has uncommitted changes to tracked files')
        return 2
    fm = fixed_map()
    files = sorted(glob.glob(MUT + '/*.patch') + glob.glob('/verif/seeded/*/patch.diff'))
    if pats:
        files = [f for f in files if any(p in f for p in pats)]
    out = open(MUT + '/results.jsonl', 'a')
    for f in files:
        name = os.path.basename(f)[:-6] if f.endswith('.patch') else 'seeded-' + os.path.basename(os.path.dirname(f))
        props = props_for(name, fm)
        if f.endswith('patch.diff'):
            meta = json.load(open(os.path.dirname(f) + '/meta.json'))
            props = [meta['property']] + meta.get('also_check', [])
        if not props:
            print('%-60s no property mapped' % name)
            continue
        a = sh('git -C %s apply %s' % (REPO, f))
        if a.returncode != 0:
            print('%-60s does not apply: %s' % (name, a.stdout[:200]))
            clean()
            continue
        rec = {'mutant': name, 'props': props, 'budget': budget, 'at': time.strftime('%Y-%m-%dT%H:%M:%S')}
        try:
            if tests:
                b = sh('make -C %s -j16 >/dev/null 2>&1; make -C %s/test check 2>&1 | grep -E "^# (PASS|FAIL)"' % (REPO, REPO))
                rec['repo_tests'] = ' '.join(b.stdout.split())
            caught = []
            for p in props:
                t0 = time.time()
                r = sh('/verif/check %s --budget %d --no-min' % (p, budget), timeout=900)
                sigs = re.findall(r'rule=(\S+) sig=(.*?) seed=', r.stdout)
                rec.setdefault('checks', {})[p] = {'rc': r.returncode, 'sigs': sorted(set('%s %s' % s for s in sigs))[:6],
                                                   'wall': round(time.time() - t0, 1)}
                if r.returncode == 1:
                    caught.append(p)
                elif r.returncode != 0:
                    rec['checks'][p]['tail'] = r.stdout[-400:]
                    if 'BUILD FAILED' in r.stdout:
                        rec['invalid'] = 'does not compile in the harness build'
            rec['caught'] = bool(caught)
        finally:
            clean()
        out.write(json.dumps(rec) + '\n')
        out.flush()
        print('%-60s %s %s %s' % (name, 'CAUGHT' if rec['caught'] else ('INVALID' if rec.get('invalid') else 'MISSED'), rec.get('repo_tests', ''),
                                  {p: c['sigs'][:2] for p, c in rec['checks'].items()}))
    if tests:
        sh('make -C %s -j16 >/dev/null 2>&1' % REPO)
    return 0


if __name__ == '__main__':
    sys.exit(main(sys.argv[1:]))
