#!/bin/sh
# verify_seed.sh DIR: confirm a sub-agent's seeded change in its scratch copy DIR:
#  - DIR/OUT/patch.diff is exactly the source change in DIR
#  - the changed tree builds and passes the repository's own tests
#  - DIR/OUT/demo/run.sh fails on the changed tree and passes on the unchanged one
# prints one summary line; leaves DIR in the unchanged (patch reverted) state.
D=$1
cd "$D" || exit 2
L=$D/OUT/verify.log
: > "$L"
git diff -- src > /tmp/vs.$$.diff
if ! cmp -s /tmp/vs.$$.diff OUT/patch.diff; then
	# bring the tree to exactly the patch
	git checkout -- src && git apply OUT/patch.diff || { echo "$D patch does not apply"; exit 2; }
fi
rm -f /tmp/vs.$$.diff
make -j8 >>"$L" 2>&1 || { echo "$D BUILD-FAILED"; exit 1; }
T=$(make -C test check 2>&1 | grep -E '^# (PASS|FAIL|ERROR)' | tr '\n' ' ')
timeout 600 sh OUT/demo/run.sh "$D" >>"$L" 2>&1; RC1=$?
git apply -R OUT/patch.diff || { echo "$D cannot revert"; exit 2; }
make -j8 >>"$L" 2>&1
timeout 600 sh OUT/demo/run.sh "$D" >>"$L" 2>&1; RC0=$?
echo "$D tests[$T] demo_changed_rc=$RC1 demo_unchanged_rc=$RC0"
