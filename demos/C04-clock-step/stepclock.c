/* stepclock SECONDS: set CLOCK_REALTIME that many seconds ahead (or back) */
#include <stdio.h>
#include <stdlib.h>
#include <time.h>
int main(int argc, char **argv)
{
	struct timespec ts;
	long s = argc > 1 ? atol(argv[1]) : 0;
	if (clock_gettime(CLOCK_REALTIME, &ts) < 0) return 1;
	ts.tv_sec += s;
	if (clock_settime(CLOCK_REALTIME, &ts) < 0) { perror("clock_settime"); return 1; }
	return 0;
}
