#!/bin/sh
# C04 demonstration against the real programs: a one-shot task is due in 6 s; after 1 s the wall clock is stepped
# 20 s ahead (and 4 s later back again).  The task's time has come and gone: it must be run (late), never zero times.
# Needs CAP_SYS_TIME; the machine's clock is off by 20 s for 4 s.   exit 0 holds / 1 broken / 2 not applicable
T=${1:-/repo}
HERE=$(cd "$(dirname "$0")" && pwd)
W=$(mktemp -d /tmp/cs.XXXXXX) || exit 2
trap 'rm -rf "$W"' EXIT
chmod 755 "$W"
gcc -o "$W/stepclock" "$HERE/stepclock.c" || exit 2
timeout 90 unshare -n -m sh "$HERE/inner.sh" "$T" "$W"
rc=$?
test $rc -eq 94 && { echo "cannot set the clock here"; exit 2; }
test $rc -ne 0 && { echo "driver failed ($rc)" >&2; exit 2; }
echo "jobs run: $(tr '\n' ' ' < "$W/log")"
grep -E 'next run|supervising|past|completed' "$W/echsd.log" | head
if grep -q A "$W/log"; then echo "the occurrence was run: holds"; exit 0; fi
echo "the occurrence the clock was stepped over was never run"
exit 1
