#!/bin/sh
# inside `unshare -n -m`; $1 = built tree, $2 = work dir
T=$1
W=$2
mount -t tmpfs none /var/spool || exit 90
mkdir -p /var/run/echse
cd "$W" || exit 91
: > log
TA=$(date -u -d "+6 seconds" +%Y%m%dT%H%M%SZ)
cat > one.ics <<X
BEGIN:VCALENDAR
VERSION:2.0
BEGIN:VEVENT
UID:cs-a
SUMMARY:echo A >> $W/log
DTSTART:$TA
END:VEVENT
END:VCALENDAR
X
timeout 60 "$T/src/echsd" -n > echsd.log 2>&1 &
D=$!
i=0
until grep -q 'echsd ready' echsd.log 2>/dev/null; do
	i=$((i + 1)); test $i -gt 50 && exit 92; sleep 0.1
done
timeout 5 "$T/src/echsq" add one.ics > add.out 2>&1 || { cat add.out >&2; kill $D; exit 93; }
sleep 1
# the machine's clock is set 20 s ahead (resume after suspend, NTP step), over the task's time
"$W/stepclock" 20 || { kill $D; exit 94; }
sleep 4
"$W/stepclock" -20
sleep 1
kill $D
wait $D 2>/dev/null
exit 0
