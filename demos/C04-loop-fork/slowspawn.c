/* LD_PRELOAD shim: posix_spawn() takes 1.6 s (a loaded or stalled machine) */
#define _GNU_SOURCE
#include <dlfcn.h>
#include <spawn.h>
#include <unistd.h>
int
posix_spawn(pid_t *pid, const char *path, const posix_spawn_file_actions_t *fa,
	    const posix_spawnattr_t *at, char *const argv[], char *const envp[])
{
	static int (*real)(pid_t*, const char*, const posix_spawn_file_actions_t*,
			   const posix_spawnattr_t*, char *const[], char *const[]);
	int rc;
	if (!real) {
		real = dlsym(RTLD_NEXT, "posix_spawn");
	}
	rc = real(pid, path, fa, at, argv, envp);
	usleep(1600000);
	return rc;
}
