#!/bin/sh
# inside `unshare -n -m`; $1 = built tree, $2 = work dir
T=$1
W=$2
mount -t tmpfs none /var/spool || exit 90
mkdir -p /var/run/echse
cd "$W" || exit 91
: > log
TA=$(date -u -d "+3 seconds" +%Y%m%dT%H%M%SZ)
TB=$(date -u -d "+4 seconds" +%Y%m%dT%H%M%SZ)
cat > two.ics <<X
BEGIN:VCALENDAR
VERSION:2.0
BEGIN:VEVENT
UID:lf-a
SUMMARY:echo A >> $W/log
DTSTART:$TA
END:VEVENT
BEGIN:VEVENT
UID:lf-b
SUMMARY:echo B >> $W/log
DTSTART:$TB
END:VEVENT
END:VCALENDAR
X
LD_PRELOAD=$W/slowspawn.so timeout 30 "$T/src/echsd" -n > echsd.log 2>&1 &
D=$!
i=0
until grep -q 'echsd ready' echsd.log 2>/dev/null; do
	i=$((i + 1)); test $i -gt 50 && exit 92; sleep 0.1
done
timeout 5 "$T/src/echsq" add two.ics > add.out 2>&1 || { cat add.out >&2; kill $D; exit 93; }
sleep 10
timeout 5 "$T/src/echsq" list > list.out 2>&1
kill $D
wait $D 2>/dev/null
exit 0
