#!/bin/sh
# C04 demonstration against the real programs: task A is due at T, task B at
# T+1; starting A's executor takes 1.6 s (slowspawn.so).  B must still be run
# (late), "never zero".  usage: run.sh [BUILT-TREE]   exit 0 holds / 1 broken / 2 n/a
T=${1:-/repo}
HERE=$(cd "$(dirname "$0")" && pwd)
W=$(mktemp -d /tmp/lf.XXXXXX) || exit 2
trap 'rm -rf "$W"' EXIT
chmod 755 "$W"
gcc -shared -fPIC -o "$W/slowspawn.so" "$HERE/slowspawn.c" -ldl || exit 2
timeout 60 unshare -n -m sh "$HERE/inner.sh" "$T" "$W" || { echo "driver failed" >&2; exit 2; }
echo "jobs run: $(tr '\n' ' ' < "$W/log")"
grep -E 'next run|supervising|past|completed' "$W/echsd.log" | head -20
if grep -q A "$W/log" && grep -q B "$W/log"; then
	echo "both occurrences were run: holds"; exit 0
fi
echo "task B (due while A's executor was being started) was never run"
exit 1
