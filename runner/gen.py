"""Plan generators.  gen(profile, seed, tier) -> plan (a JSON-able dict).
Only random.Random(seed) with getrandbits-based draws is used."""
import os
import random

from . import ical

T_BASE = 1893456000          # 2030-01-01T00:00:00Z
UIDS = [1000, 1001, 1002, 1003, 1004, 1005]
EXIT_STATUS = [0, 0, 0, 256, 512, 9, 15]   # wait(2) style: code<<8 or signal


class G:
    def __init__(self, seed):
        self.r = random.Random(seed)
        self.seed = seed

    def chance(self, p):
        return self.r.random() < p

    def pick(self, seq):
        return seq[self.r.randrange(len(seq))]

    def wpick(self, pairs):
        tot = sum(w for _, w in pairs)
        x = self.r.random() * tot
        for v, w in pairs:
            x -= w
            if x < 0:
                return v
        return pairs[-1][0]

    def rint(self, a, b):
        return self.r.randint(a, b)

    def uni(self, a, b):
        return a + (b - a) * self.r.random()


def mk_users(g, n):
    us = UIDS[:n] if n <= len(UIDS) else [1000 + i for i in range(n)]
    return [{'uid': u, 'gid': u + 100 if g.chance(0.3) else u, 'name': 'u%d' % u,
             'shell': g.pick(['/bin/sh', '/bin/bash', '/bin/dash'])} for u in us]


def arith_spec(g, uid, t0, horizon, opts=None):
    """an arithmetic-family task whose occurrences we can compute ourselves.
    T0 is (about) when it will be loaded; HORIZON the simulated span."""
    opts = opts or {}
    sp = {'uid': uid, 'cmd': 'job %s' % uid}
    freq = g.wpick([('SECONDLY', 5), ('MINUTELY', 3), ('HOURLY', 1), ('DAILY', 0.5)])
    unit = ical.UNIT[freq]
    # aim for 1..max_occ occurrences inside the horizon
    max_occ = opts.get('max_occ', 40)
    want = g.rint(1, max_occ)
    interval = max(1, int(horizon / (unit * want)))
    if unit * interval > horizon and freq != 'SECONDLY':
        freq, unit = 'SECONDLY', 1
        interval = max(1, int(horizon / want))
    if g.chance(0.2):
        interval = g.pick([1, 2, 3, 5, 7, 10, 30, 45, 60, 90, 366])
    # (periods of more than a month were expanded wrongly by the RRULE engine
    # until fix 6500598; they are generated since)
    while unit * interval > 400 * 86400:
        interval = max(1, interval // 2)
    # bounded runs: no more than a few hundred occurrences in the horizon
    while horizon / (unit * interval) > opts.get('max_spawns', 300):
        interval *= 2
    while unit * interval > 400 * 86400:
        interval = max(1, interval // 2)
    step = unit * interval
    # where does it start relative to load time
    where = g.wpick([('future', 5), ('past', 3), ('at', 1), ('farpast', 0.7), ('allpast', 0.5)])
    if opts.get('where'):
        where = opts['where']
    if where == 'future':
        start = int(t0 + g.uni(0, horizon * 0.5)) + 1
    elif where == 'at':
        start = int(t0) + g.pick([0, 0, 1, -1])
    elif where == 'past':
        start = int(t0 - g.uni(0, min(horizon, step * 200)))
    elif where == 'farpast':
        # years back, but bounded number of periods to unwind
        back = g.rint(1000, 90000) * step
        start = int(t0) - back
        if g.chance(0.3) and not opts.get('no_pre2001'):
            # before 2001: the daemon has its own epoch conversion
            yrs = g.rint(30, 45)
            nb = (yrs * 365 * 86400) // step
            if nb <= 95000:
                start = int(t0) - nb * step - g.rint(0, step - 1)
    else:
        start = int(t0 - g.uni(step * 3, step * 50 + 100))
    # echse supports 1902..2098
    lo_ts = -2145916800 + 86400 * 400
    if start < lo_ts:
        start += ((lo_ts - start) // step + 1) * step
    rule = {'freq': freq, 'interval': interval}
    endk = g.wpick([('count', 6), ('until', 2), ('none', 1 if where != 'allpast' else 0)])
    if where == 'allpast':
        n = g.rint(1, 3)
        rule['count'] = n
        start = min(start, int(t0) - n * step - 5)
    elif endk == 'count':
        # end inside the horizon for most tasks so that retirement happens
        first_future = max(0, int((t0 - start) // step))
        rule['count'] = first_future + g.rint(1, max(1, want))
        if where == 'farpast' and rule['count'] > 99000:
            rule['count'] = 99000
    elif endk == 'until':
        rule['until'] = int(t0 + g.uni(0.1, 1.2) * horizon)
    else:
        # unbounded: we only need occurrences up to well past the horizon
        pass
    sp['start'] = start
    sp['rules'] = [rule]
    if 'count' not in rule and 'until' not in rule:
        sp['horizon_n'] = int((t0 + 3 * horizon + 86400 * 3 - start) // step) + 3
    # a second rule sometimes (same DTSTART; union semantics)
    if g.chance(opts.get('p_rule2', 0.15)):
        f2 = g.pick(['SECONDLY', 'MINUTELY'])
        i2 = g.pick([2, 3, 7, 11, 45, 61, 600])
        first_future = max(0, int((t0 - start) // (ical.UNIT[f2] * i2)))
        if first_future < 90000:
            sp['rules'].append({'freq': f2, 'interval': i2,
                                'count': first_future + g.rint(1, 6)})
    if g.chance(opts.get('p_rdate', 0.15)):
        n = g.rint(1, 4)
        rd = sorted(set(int(t0 + g.uni(-0.1, 1.0) * horizon) for _ in range(n)))
        sp['rdates'] = rd
    if g.chance(0.5):
        sp['zulu'] = False
    return sp


def finish_task(tid, sp, family='arith', lo=None):
    t = {'id': tid, 'family': family, 'spec': sp}
    if family == 'arith':
        t['occ'] = ical.arith_occurrences(sp, lo=lo)
        t['occ_lo'] = lo
    return t


def life_table(g, plan_tasks, step_hint=None, opts=None):
    """scripted executor lifetimes per task UID (cycled)"""
    opts = opts or {}
    life = {}
    for t in plan_tasks:
        sp = t['spec']
        r0 = (sp.get('rules') or [{'freq': 'SECONDLY', 'interval': 60}])[0]
        step = ical.UNIT[r0['freq']] * r0.get('interval', 1)
        ll = []
        for _ in range(g.rint(1, 4)):
            kind = g.wpick([('zero', 1), ('short', 4), ('about', 2), ('long', 2), ('forever', 0.5)])
            if kind == 'zero':
                l = 0.0
            elif kind == 'short':
                l = round(g.uni(0.01, max(0.02, step * 0.8)), 3)
            elif kind == 'about':
                l = round(step * g.uni(0.9, 1.1), 3)
            elif kind == 'long':
                l = round(step * g.uni(1.5, 6.0), 3)
            else:
                l = 1e7
            delay = 0.0
            if g.chance(opts.get('p_exitdelay', 0.3)):
                delay = round(g.pick([0.001, 0.5, 1.0, step * 0.5, step * 1.5]), 3)
            ll.append([l, g.pick(EXIT_STATUS), delay])
        life[sp['uid']] = ll
    life['*'] = [[0.5, 0, 0.0]]
    return life


def base_cfg(g, t0, opts=None):
    opts = opts or {}
    late_p = g.pick([0.0, 0.02, 0.05, 0.2])
    late_max = g.pick([1.0, 5.0, 30.0, 120.0])
    exact_p = g.pick([0.0, 0.02, 0.1])
    jit = g.pick([0.002, 0.05, 0.5])
    cfg = {'start': t0, 'late': [late_p, late_max, exact_p, jit],
           'daemon_uid': 0, 'dirperm': g.r.getrandbits(32)}
    if g.chance(0.3):
        cfg['readfrag'] = [g.pick([1, 7, 64, 1000, 4096, 0]) for _ in range(g.rint(1, 4))]
    # time the daemon spends inside posix_spawn(): a slow or stalled node
    if g.chance(opts.get('p_spawncost', 0.5)):
        cfg['spawncost'] = [g.pick([0.05, 0.2, 0.6]), g.pick([0.3, 1.5, 4.0, 20.0])]
    return cfg


def gen_c04(seed, tier='quick', opts=None):
    """C04: tasks, add/replace/cancel histories, late wake-ups, exits"""
    g = G(seed)
    opts = dict(opts or {})
    t0 = T_BASE + g.rint(0, 86400 * 365 * 8)
    horizon = g.pick([120, 600, 600, 3600, 7200, 86400] if tier == 'quick'
                     else [120, 600, 3600, 7200, 86400, 3 * 86400])
    nusers = g.rint(1, 3)
    users = mk_users(g, nusers)
    ntasks = g.wpick([(1, 3), (2, 3), (3, 2), (g.rint(4, 8), 2),
                      (g.rint(9, 12 if tier == 'quick' else 40), 0.5)])
    cfg = base_cfg(g, t0)
    # wall clock steps (own PRNG, the rest of the plan is what it was without them).  Backward steps only in
    # the campaigns: what a forward step does is the recorded known finding C04/clock-step-forward.
    gs = G(seed ^ 0x7e57c10c)
    steps = []
    if gs.chance(opts.get('p_clockstep', 0.15)):
        for _ in range(gs.wpick([(1, 3), (2, 1)])):
            dt = gs.pick([-0.4, -3.0, -45.0, -900.0, -7200.0])
            if opts.get('forward_steps'):
                dt = -dt if gs.chance(0.5) else dt
            steps.append((round(t0 + gs.uni(1.0, horizon), 3), dt))
    # tasks are loaded at wall times as early as this (occurrence lists start there)
    lo = int(t0 - 10 + sum(dt for _, dt in steps if dt < 0)) - 1
    tasks = []
    ops = []
    nrestart = g.wpick([(0, 6), (1, 3), (2, 1)]) if opts.get('restarts', True) else 0
    if nrestart and opts.get('avoid_serial', True):
        # known finding C05/serialise-multi: a checkpoint cannot represent
        # several RRULEs or RDATE lists faithfully; C04 does not re-report it
        opts['p_rule2'] = 0.0
        opts['p_rdate'] = 0.0
    for i in range(ntasks):
        uid = 'j%d@sim' % i
        tl = t0 + (g.uni(0.5, 3) if g.chance(0.7) else g.uni(0, horizon * 0.6))
        sp = arith_spec(g, uid, tl, horizon, opts)
        if opts.get('maxsimul') and g.chance(0.7):
            sp['maxsimul'] = g.wpick([(1, 4), (2, 3), (3, 2), (5, 1), (17, 0.5), (62, 0.5)])
        t = finish_task(len(tasks), sp, lo=lo)
        tasks.append(t)
        via = 'echsq' if g.chance(0.8) else 'raw'
        if (sp.get('rdates') or len(sp['rules']) > 1) and opts.get('avoid_serial', True):
            # same known finding: echsq re-serialises what it sends
            via = 'raw'
        ops.append({'t': round(tl, 3), 'op': 'add', 'peer': g.pick(users)['uid'],
                    'tasks': [t['id']], 'linger': round(g.uni(0.05, 2.0), 3),
                    'via': via})
    # one request naming a UID twice: an incarnation that is all in the past, replaced at once by the real one
    # (and the other way round); sent in one write, so both are handled in one wake-up
    gd = G(seed ^ 0x2b1d)
    for o in list(ops):
        if o['op'] == 'add' and len(o['tasks']) == 1 and gd.chance(opts.get('p_twice', 0.08)):
            orig = tasks[o['tasks'][0]]
            if orig['spec'].get('rdates') or len(orig['spec']['rules']) > 1:
                continue
            sp2 = arith_spec(gd, orig['spec']['uid'], o['t'], horizon, dict(opts, where='allpast', p_rule2=0, p_rdate=0))
            twin = finish_task(len(tasks), sp2, lo=lo)
            tasks.append(twin)
            o['tasks'] = [twin['id'], orig['id']] if gd.chance(0.7) else [orig['id'], twin['id']]
            o['via'] = 'raw'
    # group some adds into one request
    if len(ops) > 1 and g.chance(0.4):
        a = ops[0]
        for b in ops[1:]:
            # (only adds meant for about the same moment: a task's rules are sized for when it is loaded,
            # loading it hours early can mean tens of thousands of runs)
            if b['peer'] == a['peer'] and b['via'] == a['via'] and abs(b['t'] - a['t']) < 5.0 and g.chance(0.5):
                a['tasks'] += b['tasks']
                b['tasks'] = []
        ops = [o for o in ops if o['tasks']]
    # replace / cancel ops, biased to land around occurrence times
    nmut = g.wpick([(0, 3), (1, 3), (2, 2), (g.rint(3, 8), 1)])
    owners = {}
    for o in ops:
        for tid in o['tasks']:
            owners[tid] = o['peer']
    for _ in range(nmut):
        t = g.pick(tasks[:ntasks])
        occs = [x for x in t['occ'] if t0 < x < t0 + horizon]
        if occs and g.chance(0.7):
            at = g.pick(occs) + g.pick([-0.5, -0.01, 0.0, 0.0005, 0.01, 0.3, 1.2])
        else:
            at = t0 + g.uni(1, horizon)
        at = max(at, t0 + 0.2)
        kind = g.wpick([('replace', 3), ('cancel', 3), ('foreign-cancel', 0.5), ('readd', 1)])
        owner = owners.get(t['id'], users[0]['uid'])
        if kind == 'cancel':
            ops.append({'t': round(at, 4), 'op': 'cancel', 'peer': owner,
                        'uids': [t['spec']['uid']], 'linger': round(g.uni(0.05, 1.0), 3)})
        elif kind == 'foreign-cancel':
            other = g.pick(users)['uid']
            ops.append({'t': round(at, 4), 'op': 'cancel', 'peer': other,
                        'uids': [t['spec']['uid']], 'linger': 0.2})
        else:
            sp = arith_spec(g, t['spec']['uid'], at, horizon, opts)
            if opts.get('maxsimul') and g.chance(0.7):
                sp['maxsimul'] = g.pick([1, 2, 3, 5])
            nt = finish_task(len(tasks), sp, lo=lo)
            tasks.append(nt)
            ops.append({'t': round(at, 4), 'op': 'add', 'peer': owner,
                        'tasks': [nt['id']], 'linger': round(g.uni(0.05, 1.0), 3),
                        'via': 'raw' if (sp.get('rdates') or len(sp['rules']) > 1) and opts.get('avoid_serial', True) else 'echsq'})
    # listings
    for _ in range(g.rint(0, 3)):
        u = g.pick(users)['uid']
        ops.append({'t': round(t0 + g.uni(1, horizon), 3), 'op': 'get', 'peer': u,
                    'path': g.pick(['/sched', '/sched', '/queue'])})
    # stalls: the daemon is held up past several occurrences
    for _ in range(g.wpick([(0, 4), (1, 2), (3, 1)])):
        ops.append({'t': round(t0 + g.uni(1, horizon), 3), 'op': 'stall',
                    's': round(g.pick([0.5, 3, 20, 90, horizon * 0.2]), 3)})
    if g.chance(opts.get('p_spawnfault', 0.1)):
        ops.append({'t': round(t0 + g.uni(1, horizon), 3), 'op': 'spawnfault',
                    'which': g.pick(['pipe', 'spawn']), 'errno': g.pick(['EAGAIN', 'EMFILE', 'ENOMEM']),
                    'count': g.rint(1, 3)})
    for st, dt in steps:
        ops.append({'t': st, 'op': 'clockstep', 'dt': dt})
    ops.sort(key=lambda o: o['t'])
    end = t0 + horizon + 5
    epochs = [{'start': t0, 'ops': ops}]
    # split into epochs at random times: clean restart or crash
    for _ in range(nrestart):
        ep = epochs[-1]
        if not ep['ops']:
            break
        cut = t0 + g.uni(0.1, 0.9) * horizon
        if cut <= ep['start'] + 1:
            continue
        before = [o for o in ep['ops'] if o['t'] < cut]
        after = [o for o in ep['ops'] if o['t'] >= cut + 2]
        how = g.pick(['sigterm', 'sigterm', 'crash'])
        before.append({'t': round(cut, 3), 'op': how})
        if how == 'sigterm':
            before.append({'t': round(cut + 1, 3), 'op': 'crash'})
        ep['ops'] = before
        down = g.pick([0.5, 2, 30, 300, horizon * 0.1])
        nstart = cut + 1.5 + down
        after = [o for o in after if o['t'] > nstart + 0.1]
        epochs.append({'start': round(nstart, 3), 'ops': after})
    last = epochs[-1]
    endt = max(end, last['start'] + 5)
    last['ops'].append({'t': round(endt, 3), 'op': g.pick(['sigterm', 'sigterm', 'crash'])})
    last['ops'].append({'t': round(endt + 1, 3), 'op': 'crash'})
    plan = {'v': 1, 'engine': 'simd', 'property': opts.get('property', 'C04'), 'seed': seed,
            'cfg': cfg, 'users': users, 'tasks': tasks,
            'life': life_table(g, tasks, opts=opts), 'epochs': epochs}
    if plan['property'] == 'C04':
        # job control: some executors are stopped and continued; that is no exit and must not
        # retire a task or count as a run (own generator: older seeds keep their plans)
        jc = G(seed ^ 0x6a63746c).pick([0, 0, 0, 0.2])
        if jc:
            plan['cfg']['jobctl'] = jc
    return plan


PROFILES = {'C04': gen_c04}


def gen(profile, seed, tier='quick', opts=None):
    return PROFILES[profile](seed, tier, opts)


# ---------------------------------------------------------------- C12
def gen_c12(seed, tier='quick', opts=None):
    """C12: as C04 with X-ECHS-MAX-SIMUL limits and job durations chosen
    relative to the period so that the limit is reached, left, reached again"""
    o = {'property': 'C12', 'maxsimul': True, 'p_exitdelay': 0.5, 'max_occ': 60}
    o.update(opts or {})
    plan = gen_c04(seed, tier, o)
    g = G(seed ^ 0x5a5a5a5a)
    # calendar-level limits for some requests
    for ep in plan['epochs']:
        for op in ep['ops']:
            if op['op'] == 'add' and g.chance(0.25):
                op['cal'] = {'maxsimul': g.pick([1, 1, 2, 3, 5])}
    # lifetimes: multiples of the period around the limit
    tasks = {t['id']: t for t in plan['tasks']}
    for t in plan['tasks']:
        sp = t['spec']
        r0 = sp['rules'][0]
        step = ical.UNIT[r0['freq']] * r0.get('interval', 1)
        n = sp.get('maxsimul') or 2
        ll = []
        for _ in range(g.rint(1, 4)):
            k = g.wpick([(0.3, 2), (0.9, 2), (1.1, 2), (n - 0.2, 2), (n + 0.3, 3), (n * 2.5, 1), (0.0, 0.5)])
            ll.append([round(step * k * g.uni(0.95, 1.05), 3), g.pick(EXIT_STATUS),
                       round(g.pick([0, 0, 0.001, step * 0.3, step * 1.2]), 3)])
        plan['life'][sp['uid']] = ll
    # job control: an operator stops and continues some executors (SIGSTOP/SIGCONT); a stopped executor
    # still runs as far as the limit is concerned
    jc = g.pick([0, 0, 0.1, 0.4])
    if jc:
        plan['cfg']['jobctl'] = jc
    return plan


# ---------------------------------------------------------------- C11
_COLL = None


def collision_groups():
    global _COLL
    if _COLL is None:
        import json
        try:
            _COLL = json.load(open(os.environ.get('VERIF_BUILD', '/verif/build') + '/uidcoll.json'))
        except Exception:
            _COLL = {}
    return _COLL


def gen_c11(seed, tier='quick', opts=None):
    """C11: histories of add/replace/cancel/list requests by several peers"""
    g = G(seed)
    opts = dict(opts or {})
    t0 = T_BASE + g.rint(0, 86400 * 365 * 8)
    horizon = g.pick([60, 120, 600, 1800])
    nusers = g.rint(2, 5)
    # more users than the daemon keeps individual checkpoint marks for (16)
    many = g.chance(opts.get('p_manyusers', 0.1))
    if many:
        nusers = g.rint(17, 22)
    users = mk_users(g, nusers)
    peers = [u['uid'] for u in users]
    if g.chance(0.3):
        peers.append(0)
    cfg = base_cfg(g, t0)
    cfg['late'] = [g.pick([0.0, 0.05]), 2.0, g.pick([0.0, 0.05]), g.pick([0.002, 0.05])]
    # UID pool
    pool = ['j%d@sim' % i for i in range(g.rint(2, 6))]
    coll = collision_groups()
    if coll and g.chance(0.6):
        for _ in range(g.rint(1, 3)):
            b = g.pick(sorted(coll.keys(), key=int))
            if coll[b]:
                pool += g.pick(coll[b])
    if g.chance(0.15):
        pool += ['odd uid with spaces', 'x' * g.rint(100, 250), 'UID:in:uid', 'j;semi,comma']
    tasks = []
    ops = []
    nreq = g.wpick([(g.rint(3, 8), 4), (g.rint(9, 30), 3), (g.rint(31, 80), 1 if tier == 'quick' else 3)])
    t = t0 + 0.5
    if many:
        # everybody queues something first
        for u in users:
            sp = arith_spec(g, 'u%d@sim' % u['uid'], t, horizon + 400, {'max_occ': 6, 'p_rule2': 0, 'p_rdate': 0, 'where': 'future'})
            tk = finish_task(len(tasks), sp, lo=t0 - 10)
            tasks.append(tk)
            ops.append({'t': round(t, 4), 'op': 'add', 'peer': u['uid'], 'tasks': [tk['id']],
                        'linger': round(g.uni(0.02, 0.3), 3), 'via': g.pick(['echsq', 'raw'])})
            t += g.uni(0.01, 0.5)
        opts['p_cptail'] = 1.0
    for _ in range(nreq):
        t += g.wpick([(g.uni(0.0, 0.01), 2), (g.uni(0.01, 1.0), 3), (g.uni(1, horizon / max(4, nreq) * 2), 3)])
        peer = g.pick(peers)
        kind = g.wpick([('add', 6), ('cancel', 3), ('get', 3), ('addmulti', 1.5)])
        if kind in ('add', 'addmulti'):
            n = 1 if kind == 'add' else g.rint(2, 5)
            tids = []
            for _i in range(n):
                uid = g.pick(pool)
                sp = arith_spec(g, uid, t, horizon, {'max_occ': 6, 'p_rule2': 0, 'p_rdate': 0,
                                                   'where': g.wpick([('future', 6), ('past', 2), ('allpast', 1)])})
                x = g.r.random()
                if x < 0.12:
                    sp['owner'] = g.pick([str(g.pick(peers)), 'u%d' % g.pick(peers[:nusers]), 'nobody', '4711'])
                elif x < 0.22:
                    sp['setuid'] = g.pick([str(g.pick(peers)), '0', 'root', 'u%d' % g.pick(peers[:nusers])])
                    if g.chance(0.5):
                        sp['setgid'] = g.pick(['0', str(g.pick(peers))])
                elif x < 0.27 and not opts.get('no_nodtstart'):
                    sp['start'] = None
                    sp['rules'] = []
                    sp.pop('rdates', None)
                if sp.get('start') is None:
                    tk = {'id': len(tasks), 'family': 'nodtstart', 'spec': sp, 'occ': []}
                else:
                    tk = finish_task(len(tasks), sp, lo=t0 - 10)
                tasks.append(tk)
                tids.append(tk['id'])
            op = {'t': round(t, 4), 'op': 'add', 'peer': peer, 'tasks': tids,
                  'linger': round(g.uni(0.02, 1.5), 3),
                  'via': 'echsq' if g.chance(0.7) else 'raw'}
            if g.chance(0.08):
                op['cal'] = {'owner': g.pick([str(g.pick(peers)), 'u%d' % g.pick(peers[:nusers])])}
            if g.chance(0.05):
                # hang up without reading the replies (only when the request
                # names every UID once: what such a request did is read off
                # the daemon's watcher starts, which name UIDs)
                us = [tasks[i]['spec']['uid'] for i in tids]
                if len(set(us)) == len(us):
                    op['abort'] = True
                    op['linger'] = round(g.uni(0.0, 0.01), 4)
            ops.append(op)
        elif kind == 'cancel':
            n = g.wpick([(1, 5), (2, 1), (3, 0.5)])
            uids = [g.pick(pool + ['nosuch@sim']) for _i in range(n)]
            ops.append({'t': round(t, 4), 'op': 'cancel', 'peer': peer, 'uids': uids,
                        'linger': round(g.uni(0.02, 1.0), 3),
                        'via': 'echsq' if g.chance(0.7) else 'raw'})
        else:
            base = g.wpick([('/queue', 3), ('/sched', 3)])
            x = g.r.random()
            path = base
            if x < 0.25:
                q = g.pick(peers + [0, 4711])
                path = '/u/%d%s' % (q, base)
            if g.chance(0.3):
                path += '?' + '&'.join('tuid=' + g.pick(pool + ['nosuch@sim']).replace(' ', '%20')
                                       for _i in range(g.rint(1, 3)))
            ops.append({'t': round(t, 4), 'op': 'get', 'peer': peer, 'path': path})
    # a daemon that has seen hundreds of distinct UID strings (its string interner keeps them all; replies, listings
    # and checkpoints turn task keys back into strings)
    if g.chance(opts.get('p_manyuids', 0.06)):
        nu = g.rint(150, 320)
        stem = g.pick(['m%d@sim', 'job-%d@host.example', 'x%d', 'backup.%d.daily@sim'])
        k = 0
        many = []
        while k < nu:
            peer = g.pick(peers)
            tids = []
            for _i in range(g.rint(8, 24)):
                if k >= nu:
                    break
                uid = stem % k
                k += 1
                sp = {'uid': uid, 'cmd': 'job %s' % uid, 'start': int(t + horizon + 3600 + k), 'rules': []}
                tk = finish_task(len(tasks), sp, lo=t0 - 10)
                tasks.append(tk)
                tids.append(tk['id'])
                many.append((uid, peer))
            ops.append({'t': round(t, 4), 'op': 'add', 'peer': peer, 'tasks': tids,
                        'linger': round(g.uni(0.05, 0.5), 3), 'via': g.pick(['raw', 'raw', 'echsq'])})
            t += g.uni(0.01, 0.3)
        for _i in range(g.rint(2, 8)):
            uid, peer = g.pick(many)
            ops.append({'t': round(t, 4), 'op': 'cancel', 'peer': peer, 'uids': [uid],
                        'linger': 0.2, 'via': g.pick(['echsq', 'raw'])})
            t += g.uni(0.01, 0.3)
        for peer in set(p_ for _, p_ in many):
            ops.append({'t': round(t, 4), 'op': 'get', 'peer': peer, 'path': '/queue'})
            t += 0.2
    # changes on both sides of a periodic checkpoint, listed right after being acknowledged
    # (the queue listing is served from the user's checkpoint file)
    if g.chance(opts.get('p_cptail', 0.3)):
        for rnd in range(g.rint(1, 3)):
            t += 61 + g.uni(0, 5)
            for _ in range(g.rint(1, 5)):
                peer = g.pick(peers)
                uid = g.pick(pool) if g.chance(0.5) else 'c%d@sim' % len(tasks)
                sp = arith_spec(g, uid, t, horizon + 400, {'max_occ': 6, 'p_rule2': 0, 'p_rdate': 0, 'where': 'future'})
                tk = finish_task(len(tasks), sp, lo=t0 - 10)
                tasks.append(tk)
                ops.append({'t': round(t, 4), 'op': 'add', 'peer': peer, 'tasks': [tk['id']],
                            'linger': round(g.uni(0.02, 0.3), 3), 'via': g.pick(['echsq', 'raw'])})
                t += g.uni(0.05, 1.0)
                if g.chance(0.7):
                    ops.append({'t': round(t, 4), 'op': 'get', 'peer': peer, 'path': g.pick(['/queue', '/queue', '/sched'])})
                    t += g.uni(0.05, 0.5)
    # a burst of concurrently open connections (33..64 must all be served, >64 refused)
    if g.chance(opts.get('p_burst', 0.12)):
        n = g.wpick([(g.rint(33, 40), 3), (g.rint(41, 64), 2), (g.rint(65, 90), 1)])
        tb = t0 + g.uni(1, horizon)
        hold = g.uni(0.5, 3.0)
        for i in range(n):
            peer = g.pick(peers)
            if g.chance(0.6):
                uid = g.pick(pool)
                sp = arith_spec(g, uid, tb, horizon, {'max_occ': 4, 'p_rule2': 0, 'p_rdate': 0, 'where': 'future'})
                tk = finish_task(len(tasks), sp, lo=t0 - 10)
                tasks.append(tk)
                ops.append({'t': round(tb + i * 0.0001, 4), 'op': 'add', 'peer': peer, 'tasks': [tk['id']],
                            'linger': round(hold + i * 0.001, 3), 'via': 'raw', 'burst': True})
            else:
                ops.append({'t': round(tb + i * 0.0001, 4), 'op': 'cancel', 'peer': peer,
                            'uids': [g.pick(pool)], 'linger': round(hold + i * 0.001, 3), 'via': 'raw',
                            'burst': True})
    ops.sort(key=lambda o: o['t'])
    end = max(t0 + horizon, max(o['t'] for o in ops) + 5) + 5
    epochs = [{'start': t0, 'ops': ops}]
    if g.chance(0.25):
        cut = t0 + g.uni(0.2, 0.9) * (end - t0)
        before = [o for o in ops if o['t'] < cut]
        after = [o for o in ops if o['t'] >= cut + 3]
        how = g.pick(['sigterm', 'crash'])
        before.append({'t': round(cut, 3), 'op': how})
        if how == 'sigterm':
            before.append({'t': round(cut + 1, 3), 'op': 'crash'})
        epochs = [{'start': t0, 'ops': before}, {'start': round(cut + 2, 3), 'ops': after}]
    epochs[-1]['ops'].append({'t': round(end, 3), 'op': g.pick(['sigterm', 'crash'])})
    epochs[-1]['ops'].append({'t': round(end + 1, 3), 'op': 'crash'})
    return {'v': 1, 'engine': 'simd', 'property': 'C11', 'seed': seed, 'cfg': cfg,
            'users': users, 'tasks': tasks, 'life': life_table(g, tasks, opts=opts),
            'epochs': epochs}


PROFILES['C12'] = gen_c12
PROFILES['C11'] = gen_c11


# ---------------------------------------------------------------- C06
def gen_c06(seed, tier='quick', opts=None):
    """C06: a history prefix by several users ending in a checkpoint trigger;
    the spool system calls after the MARK op are enumerated by the runner."""
    g = G(seed)
    opts = dict(opts or {})
    t0 = T_BASE + g.rint(0, 86400 * 365 * 8)
    nusers = g.wpick([(1, 3), (2, 3), (g.rint(3, 6), 2), (g.rint(17, 20), 0.4 if tier == 'quick' else 0.8)])
    users = [{'uid': 1000 + i, 'gid': 1000 + i, 'name': 'u%d' % (1000 + i)} for i in range(nusers)]
    cfg = base_cfg(g, t0)
    cfg['late'] = [0.0, 1.0, 0.0, 0.01]
    tasks = []
    ops = []
    t = t0 + 0.5
    big = g.chance(0.35)
    nadd = g.wpick([(g.rint(1, 3), 4), (g.rint(4, 10), 3), (g.rint(11, 30), 1 if tier != 'quick' else 0.4), (g.rint(40, 120) if tier != 'quick' else g.rint(12, 25), 0.5 if tier != 'quick' else 0.15)])
    if nusers > 6:
        nadd = max(nadd, nusers + g.rint(0, 3))
    horizon = 900
    owners = {}
    for i in range(nadd):
        peer = users[i % nusers]['uid'] if nusers > 6 else g.pick(users)['uid']
        uid = 'k%d@sim' % (i if g.chance(0.85) else g.rint(0, max(0, i - 1)))
        if uid in owners and owners[uid] != peer:
            peer = owners[uid]
        owners[uid] = peer
        sp = arith_spec(g, uid, t, horizon, {'max_occ': 8, 'p_rule2': 0, 'p_rdate': 0,
                                           'where': g.wpick([('future', 7), ('past', 2), ('allpast', 0.5)]),
                                           'no_pre2001': True})
        if big and g.chance(0.6):
            # long command lines: the file crosses the 4 KiB write buffer,
            # single events near the 1 KiB line limit
            sp['cmd'] = 'echo ' + ('x%d ' % i) * g.rint(40, 230)
            sp['cmd'] = sp['cmd'][:g.rint(300, 990)]
        tk = finish_task(len(tasks), sp, lo=t0 - 10)
        tasks.append(tk)
        ops.append({'t': round(t, 3), 'op': 'add', 'peer': peer, 'tasks': [tk['id']],
                    'linger': round(g.uni(0.02, 0.5), 3), 'via': g.pick(['echsq', 'raw'])})
        t += g.uni(0.01, 2.0)
    # some cancels
    for _ in range(g.wpick([(0, 3), (1, 3), (g.rint(2, 5), 1)])):
        uid = g.pick(sorted(owners))
        ops.append({'t': round(t, 3), 'op': 'cancel', 'peer': owners[uid], 'uids': [uid],
                    'linger': round(g.uni(0.02, 0.5), 3)})
        t += g.uni(0.01, 1.0)
    # an earlier, undisturbed checkpoint sometimes (so that "last completed" != "none")
    if g.chance(0.5):
        t += 61
        # and more changes after it
        for _ in range(g.rint(1, 4)):
            peer = g.pick(users)['uid']
            uid = 'm%d@sim' % len(tasks)
            sp = arith_spec(g, uid, t, horizon, {'max_occ': 6, 'p_rule2': 0, 'p_rdate': 0, 'where': 'future', 'no_pre2001': True})
            tk = finish_task(len(tasks), sp, lo=t0 - 10)
            tasks.append(tk)
            owners[uid] = peer
            ops.append({'t': round(t, 3), 'op': 'add', 'peer': peer, 'tasks': [tk['id']],
                        'linger': 0.1, 'via': 'echsq'})
            t += g.uni(0.01, 1.0)
        if g.chance(0.5):
            uid = g.pick(sorted(owners))
            ops.append({'t': round(t, 3), 'op': 'cancel', 'peer': owners[uid], 'uids': [uid], 'linger': 0.1})
            t += 0.5
        if nusers > 6 and g.chance(0.7):
            # every user changes something in this checkpoint interval, more
            # users than the daemon keeps marks for; some cancel all they have
            order = list(users)
            g.r.shuffle(order)
            for u in order:
                mine = sorted(x for x, o in owners.items() if o == u['uid'])
                if mine and g.chance(0.45):
                    ops.append({'t': round(t, 3), 'op': 'cancel', 'peer': u['uid'], 'uids': mine, 'linger': 0.1})
                else:
                    uid = 'n%d@sim' % len(tasks)
                    sp = arith_spec(g, uid, t, horizon, {'max_occ': 6, 'p_rule2': 0, 'p_rdate': 0, 'where': 'future', 'no_pre2001': True})
                    tk = finish_task(len(tasks), sp, lo=t0 - 10)
                    tasks.append(tk)
                    owners[uid] = u['uid']
                    ops.append({'t': round(t, 3), 'op': 'add', 'peer': u['uid'], 'tasks': [tk['id']],
                                'linger': 0.1, 'via': g.pick(['echsq', 'raw'])})
                t += g.uni(0.05, 0.6)
    # a supervised task (MAX-SIMUL) cancelled, or replaced, while one of its executions is still running:
    # the checkpoint that follows is written while the daemon still holds the old incarnation for its child
    # (own generator, so that older seeds keep the rest of their plans)
    g3 = G(seed ^ 0x72756e63)
    busy_life = {}
    if g3.chance(0.3):
        for _ in range(g3.pick([1, 1, 2])):
            peer = g3.pick(users)['uid']
            uid = 'j%d@sim' % len(tasks)
            sp = {'uid': uid, 'cmd': 'job %s' % uid, 'start': int(t) + g3.pick([1, 2]),
                  'rules': [{'freq': 'SECONDLY', 'interval': g3.pick([1, 5, 60, 3600]), 'count': g3.pick([2, 3, 50])}],
                  'maxsimul': g3.pick([1, 2, 5])}
            tk = finish_task(len(tasks), sp, lo=t0 - 10)
            tasks.append(tk)
            owners[uid] = peer
            ops.append({'t': round(t, 3), 'op': 'add', 'peer': peer, 'tasks': [tk['id']],
                        'linger': 0.1, 'via': g3.pick(['echsq', 'raw'])})
            busy_life[uid] = [[g3.pick([1e7, 1e7, 500.0, 4.0, 1.5]), 0, 0.0]]
            t += g3.uni(2.2, 3.5)
            if g3.chance(0.75):
                ops.append({'t': round(t, 3), 'op': 'cancel', 'peer': peer, 'uids': [uid], 'linger': 0.1})
            t += g3.uni(0.05, 0.5)
    t += 0.7
    ops.append({'t': round(t, 3), 'op': 'mark', 'id': 1})
    trig = g.wpick([('timer', 4), ('get', 2), ('shutdown', 3)])
    if trig == 'get':
        uid = g.pick(sorted(owners))
        ops.append({'t': round(t + 0.1, 3), 'op': 'get', 'peer': owners[uid], 'path': '/queue'})
        tend = t + g.pick([2, 30, 70])
    elif trig == 'timer':
        tend = t + g.pick([61, 75, 130])
    else:
        tend = t + g.pick([0.5, 5, 20])
    ops.append({'t': round(tend, 3), 'op': 'sigterm'})
    ops.append({'t': round(tend + 1, 3), 'op': 'crash'})
    ops.sort(key=lambda o: o['t'])
    e1 = tend + g.pick([2, 30, 300])
    ops1 = []
    for u in users[:6]:
        ops1.append({'t': round(e1 + 0.5, 3), 'op': 'get', 'peer': u['uid'], 'path': '/sched'})
    epochs = [{'start': t0, 'ops': ops}, {'start': round(e1, 3), 'ops': ops1}]
    if g.chance(0.6):
        # life goes on after the restart: further accepted changes, a clean shutdown, another restart
        # (whatever the crashed checkpoint left lying around in the spool must not get in the way)
        t1 = e1 + 1.0
        for _ in range(g.rint(1, 4)):
            if owners and g.chance(0.4):
                uid = g.pick(sorted(owners))
                ops1.append({'t': round(t1, 3), 'op': 'cancel', 'peer': owners[uid], 'uids': [uid], 'linger': 0.1})
            else:
                peer = g.pick(users)['uid']
                uid = 'r%d@sim' % len(tasks)
                sp = arith_spec(g, uid, t1, horizon, {'max_occ': 6, 'p_rule2': 0, 'p_rdate': 0, 'where': 'future', 'no_pre2001': True})
                tk = finish_task(len(tasks), sp, lo=t0 - 10)
                tasks.append(tk)
                owners[uid] = peer
                ops1.append({'t': round(t1, 3), 'op': 'add', 'peer': peer, 'tasks': [tk['id']],
                             'linger': 0.1, 'via': g.pick(['echsq', 'raw'])})
            t1 += g.uni(0.05, 1.0)
        if g.chance(0.4):
            ops1.append({'t': round(t1, 3), 'op': 'get', 'peer': g.pick(users)['uid'], 'path': '/queue'})
        tq = t1 + g.pick([0.5, 10, 70])
        ops1.append({'t': round(tq, 3), 'op': 'sigterm'})
        ops1.append({'t': round(tq + 1, 3), 'op': 'crash'})
        e2 = tq + g.pick([3, 60])
        ops2 = [{'t': round(e2 + 0.5, 3), 'op': 'get', 'peer': u['uid'], 'path': '/sched'} for u in users[:6]]
        ops2.append({'t': round(e2 + 30, 3), 'op': 'crash'})
        epochs.append({'start': round(e2, 3), 'ops': ops2})
    else:
        ops1.append({'t': round(e1 + g.pick([30, 120, 400]), 3), 'op': 'crash'})
    plan = {'v': 1, 'engine': 'simd', 'property': 'C06', 'seed': seed, 'cfg': cfg, 'users': users,
            'tasks': tasks, 'life': dict({'*': [[0.3, 0, 0.0]]}, **busy_life), 'epochs': epochs}
    return plan


PROFILES['C06'] = gen_c06


# ---------------------------------------------------------------- C05
WORDS = ['alpha', 'beta', 'gamma', 'delta', 'x y', 'a,b', 'semi;colon', 'co:lon', 'quo"te',
         'tab\there', 'uml\xe4ut', 'caf\xe9', '100%', '$HOME', '`id`', "it's", '#hash', 'a=b', '(p)']


def rand_text(g, lo=1, hi=40, path=False):
    n = g.rint(lo, hi)
    out = ''
    while len(out) < n:
        w = g.pick(WORDS)
        if path:
            w = w.replace('\t', '_').replace(' ', '_').replace(';', '_').replace(',', '_').replace(':', '_')
        out += w + (' ' if not path else '/')
    return out[:n].rstrip(' /') or 'x'


def add_fields(g, sp, opts=None):
    """decorate a spec with the README's task fields, each present/absent
    independently; no backslashes (their escape semantics are undocumented)"""
    opts = opts or {}
    if g.chance(0.7):
        sp['cmd'] = rand_text(g, 1, g.pick([10, 40, 200, 900]))
    if g.chance(0.4):
        sp['location'] = '/' + rand_text(g, 1, 40, path=True)
    if g.chance(0.4):
        sp['shell'] = g.pick(['/bin/sh', '/bin/bash', '/usr/bin/zsh', '/bin/my shell'])
    for k in ('ifile', 'ofile', 'efile'):
        if g.chance(0.3):
            sp[k] = '/tmp/' + rand_text(g, 1, 30, path=True)
    if g.chance(0.4):
        sp['umask'] = g.pick(['022', '077', '0', '027', '0777', '0002', '7', '0666'])
    for k in ('mailrun', 'mailout', 'mailerr'):
        if g.chance(0.35):
            sp[k] = g.pick(['1', '0', 'true', 'false', 'yes', 'F', 'TRUE'])
    if g.chance(0.3):
        sp['organizer'] = g.pick(['root@example.com', 'mailto:ops@example.com', 'Ops Team'])
    if g.chance(0.3):
        sp['attendees'] = [g.pick(['a@x.org', 'mailto:b@y.org', 'carol', 'mailto:d+tag@z.net'])
                           for _ in range(g.rint(1, 4))]
    if g.chance(0.2):
        sp['desc'] = rand_text(g, 1, 60)
    if g.chance(0.4):
        d = g.pick([1, 5, 59, 60, 61, 90, 3600, 3661, 86400, 90061])
        if g.chance(0.5) and not sp.get('allday'):
            sp['dtend'] = sp['start'] + d
        else:
            sp['duration'] = ical.dur2iso(d)
        sp['_dur'] = d
    return sp


def gen_c05(seed, tier='quick', opts=None):
    """C05: every task field through user file -> echsq -> echsd -> checkpoint
    -> restart -> executor request, with k occurrences consumed in between"""
    o = {'property': 'C05', 'max_occ': 260, 'p_rule2': 0.0, 'p_rdate': 0.0, 'max_spawns': 400}
    o.update(opts or {})
    g = G(seed ^ 0x0c05)
    plan = gen_c04(seed, tier, o)
    # decorate the tasks
    for t in plan['tasks']:
        sp = t['spec']
        add_fields(g, sp)
        if '_dur' in sp:
            t['dur'] = sp.pop('_dur')
        else:
            t['dur'] = 0
    # formats of the user files
    for ep in plan['epochs']:
        for op in ep['ops']:
            if op['op'] == 'add':
                if g.chance(0.3):
                    op['crlf'] = True
                if g.chance(0.3):
                    op['foldw'] = g.pick([20, 40, 60, 75])
                if g.chance(0.2):
                    op['cal'] = {'umask': g.pick(['027', '077', '0'])}
    # short executor lives: this campaign is about what is handed over
    plan['life'] = {'*': [[0.2, 0, 0.0]]}
    # make sure at least one restart happens, after some consumption
    if len(plan['epochs']) == 1:
        ep = plan['epochs'][0]
        t0 = ep['start']
        ends = [o_ for o_ in ep['ops'] if o_['op'] in ('sigterm', 'crash')]
        tend = min(o_['t'] for o_ in ends)
        cut = t0 + g.uni(0.2, 0.8) * (tend - t0)
        before = [o_ for o_ in ep['ops'] if o_['t'] < cut and o_['op'] not in ('sigterm', 'crash')]
        after = [o_ for o_ in ep['ops'] if o_['t'] >= cut + 5]
        how = g.pick(['sigterm', 'sigterm', 'crash'])
        before.append({'t': round(cut, 3), 'op': how})
        before.append({'t': round(cut + 1, 3), 'op': 'crash'})
        down = g.pick([0.5, 2, 30])
        after = [o_ for o_ in after if o_['t'] > cut + 2 + down]
        if not any(o_['op'] in ('sigterm', 'crash') for o_ in after):
            after.append({'t': round(max(tend, cut + 10 + down), 3), 'op': 'crash'})
        plan['epochs'] = [{'start': t0, 'ops': before}, {'start': round(cut + 1.5 + down, 3), 'ops': after}]
    plan['property'] = 'C05'
    return plan


PROFILES['C05'] = gen_c05
