"""Driver for the simp engine (parser and streams under a scripted caller)."""
import subprocess

import os
BUILD = os.environ.get('VERIF_BUILD', '/verif/build')


def run_jobs(lines, timeout=600):
    """run a batch of simp jobs; returns list of (ok, text) per job"""
    p = subprocess.run([BUILD + '/simp'], input=('\n'.join(lines) + '\n').encode('latin1'),
                       stdout=subprocess.PIPE, stderr=subprocess.DEVNULL, timeout=timeout)
    out = p.stdout.decode('latin1')
    res = []
    cur = None
    for line in out.split('\n'):
        if line.startswith('== job '):
            # a crashed job's partial block is superseded by its crash record
            cur = []
        elif line == '== ok':
            res.append((True, '\n'.join(cur or [])))
            cur = None
        elif line.startswith('!! crash'):
            res.append((False, '\n'.join((cur or []) + [line])))
            cur = None
        elif cur is not None:
            cur.append(line)
    return res


def input_line(data):
    return 'input ' + data.hex()


def parse_job(loop, mode, sizes, nocc=12):
    return 'parse %s %s %s %d' % (loop, mode, ','.join(str(s) for s in sizes) or '0', nocc)


def strm_job(sched):
    return 'strm %s' % sched
