"""Lowering of plans to simulator scripts and execution of the C simulators."""
import hashlib
import json
import os
import shutil
import subprocess
import tempfile

from . import ical

BUILD = os.environ.get('VERIF_BUILD', '/verif/build')
SHM = '/dev/shm' if os.path.isdir('/dev/shm') and os.access('/dev/shm', os.W_OK) else tempfile.gettempdir()
VQ_CACHE = {}


def hexs(b):
    return b.hex() if b else '00'[:0]


def user_table(plan, rundir):
    users = list(plan.get('users', []))
    if not any(u['uid'] == 0 for u in users):
        users = [{'uid': 0, 'gid': 0, 'name': 'root'}] + users
    out = []
    for u in users:
        out.append((u['uid'], u.get('gid', u['uid']), u['name'],
                    '%s/home/%s' % (rundir, u['name']), u.get('shell', '/bin/sh')))
    return out


def run_vq(args, stdin_text, vq_time):
    """the real echsq in --dry-run mode: exactly the bytes it would send"""
    key = hashlib.sha1(('\0'.join(args) + '\1' + stdin_text + '\1%d' % vq_time).encode('latin1')).hexdigest()
    if key in VQ_CACHE:
        return VQ_CACHE[key]
    env = dict(os.environ, VQ_TIME=str(int(vq_time)), HOME='/', EDITOR='true')
    p = subprocess.run([BUILD + '/vq'] + args, input=stdin_text.encode('latin1'),
                       stdout=subprocess.PIPE, stderr=subprocess.PIPE,
                       cwd='/', env=env, timeout=30,
                       preexec_fn=lambda: os.umask(0o022))
    res = (p.returncode, p.stdout, p.stderr)
    if len(VQ_CACHE) > 20000:
        VQ_CACHE.clear()
    VQ_CACHE[key] = res
    return res


def user_file_text(plan, op):
    """the file a user would hand to `echsq add`"""
    tasks = {t['id']: t for t in plan['tasks']}
    evs = []
    for tid in op['tasks']:
        t = tasks[tid]
        evs.append(t.get('text') or ical.event_text(t['spec'], crlf=op.get('crlf', False),
                                                    foldw=op.get('foldw', 0)))
    return ical.calendar_text(evs, cal=op.get('cal'), crlf=op.get('crlf', False),
                              method=op.get('method'))


class Lowered:
    """what the runner knows about each connection it opened"""

    def __init__(self):
        self.script = ''
        # (epoch, c) -> dict(kind, peer, instr=[(verb, uid, task_id)], path, wire)
        self.conns = {}
        self.vq_errors = []


def lower(plan, rundir):
    lw = Lowered()
    cfg = plan['cfg']
    L = []
    L.append('seed %d' % plan['seed'])
    L.append('rundir %s' % rundir)
    L.append('daemonuid %d' % cfg.get('daemon_uid', 0))
    late = cfg.get('late', [0.05, 5.0, 0.02, 0.05])
    L.append('late %s %s %s %s' % tuple(late))
    if cfg.get('jobctl'):
        L.append('jobctl %s' % cfg['jobctl'])
    if cfg.get('spawncost'):
        L.append('spawncost %s %s' % tuple(cfg['spawncost']))
    for u in user_table(plan, rundir):
        L.append('user %d %d %s %s %s' % u)
    for uid, ll in sorted(plan.get('life', {}).items()):
        key = '*' if uid == '*' else uid.encode('latin1').hex()
        L.append('life %s %s' % (key, ','.join('%s:%d:%s' % (a, b, c) for a, b, c in ll)))
    if cfg.get('readfrag'):
        L.append('readfrag ' + ','.join(str(x) for x in cfg['readfrag']))
    L.append('dirperm %d' % cfg.get('dirperm', 0))
    tasks = {t['id']: t for t in plan['tasks']}
    gids = {u['uid']: u.get('gid', u['uid']) for u in plan.get('users', [])}
    gids.setdefault(0, 0)
    for ei, ep in enumerate(plan['epochs']):
        L.append('epoch %.6f' % ep['start'])
        c = 0
        ops = []
        for op in ep['ops']:
            t = op['t']
            k = op['op']
            if k in ('add', 'cancel', 'get', 'raw'):
                peer = op['peer']
                info = {'kind': k, 'peer': peer, 'instr': [], 't': t}
                if k == 'add':
                    text = user_file_text(plan, op)
                    if op.get('via', 'echsq') == 'echsq':
                        rc, out, err = run_vq(['add', '-n', '-'], text, cfg['start'])
                        if rc != 0:
                            lw.vq_errors.append((rc, err.decode('latin1')[-2000:], text))
                        wire = out
                    else:
                        wire = text.encode('latin1')
                    # what is on the wire decides what must be answered: echsq
                    # does not send a task that has no occurrence at all
                    wire_uids = [v for ev in ical.split_components(wire.decode('latin1'), ('VEVENT', 'VTODO'))
                                 for k, p, v in ev if k == 'UID']
                    byuid = {}
                    for tid in op['tasks']:
                        tk = tasks[tid]
                        if op.get('via', 'echsq') == 'echsq' and tk.get('family') == 'arith' \
                                and not ical.has_any_occurrence(tk['spec']):
                            # echsq does not transmit a task without any occurrence
                            continue
                        byuid.setdefault(tk['spec'].get('uid'), []).append(tid)
                    for u in wire_uids:
                        if byuid.get(u):
                            info['instr'].append(('add', u, byuid[u].pop(0)))
                        else:
                            info['instr'].append(('add', u, None))
                    info['cal'] = op.get('cal')
                    info['via'] = op.get('via', 'echsq')
                elif k == 'cancel':
                    if op.get('via', 'echsq') == 'echsq':
                        rc, out, err = run_vq(['cancel', '-n'] + list(op['uids']), '', cfg['start'])
                        if rc != 0:
                            lw.vq_errors.append((rc, err.decode('latin1')[-2000:], ''))
                        wire = out
                    else:
                        evs = ['BEGIN:VEVENT\nUID:%s\nSTATUS:CANCELLED\nEND:VEVENT\n' % u for u in op['uids']]
                        wire = ical.calendar_text(evs, method='CANCEL').encode('latin1')
                    for u in op['uids']:
                        info['instr'].append(('cancel', u, None))
                elif k == 'get':
                    wire = ('GET %s HTTP/1.1\r\n\r\n' % op['path']).encode('latin1')
                    info['path'] = op['path']
                else:
                    wire = op['data'].encode('latin1')
                    info['instr'] = [tuple(x) for x in op.get('instr', [])]
                info['wire'] = wire
                lw.conns[(ei, c)] = info
                ops.append((t, 'conn %d %d %d' % (c, peer, gids.get(peer, peer))))
                if op.get('frag'):
                    ops.append((t, 'frag %d %s' % (c, ','.join(str(x) for x in op['frag']))))
                if op.get('sends'):
                    # deliver the wire bytes in several timed pieces
                    off = 0
                    for dt, n in op['sends']:
                        piece = wire[off:off + n]
                        off += n
                        if piece:
                            ops.append((t + dt, 'send %d %s' % (c, piece.hex())))
                    if off < len(wire):
                        ops.append((t + op['sends'][-1][0], 'send %d %s' % (c, wire[off:].hex())))
                elif wire:
                    ops.append((t, 'send %d %s' % (c, wire.hex())))
                if k != 'get' or op.get('linger') is not None:
                    lg = op.get('linger', 0.5)
                    if op.get('abort'):
                        ops.append((t + lg, 'close %d' % c))
                    else:
                        ops.append((t + lg, 'shutwr %d' % c))
                c += 1
            elif k == 'sigterm':
                ops.append((t, 'signal 15'))
            elif k == 'sighup':
                ops.append((t, 'signal 1'))
            elif k == 'crash':
                ops.append((t, 'crash'))
            elif k == 'spoolfault':
                ops.append((t, 'spoolfault %d %s %s' % (op['k'], op['kind'], op.get('errno', 'EIO'))))
            elif k == 'spawnfault':
                ops.append((t, 'spawnfault %s %s %d' % (op['which'], op.get('errno', 'EAGAIN'), op.get('count', 1))))
            elif k == 'stall':
                ops.append((t, 'stall %s' % op['s']))
            elif k == 'mark':
                ops.append((t, 'mark %d' % op.get('id', 0)))
            elif k == 'clockstep':
                # ('any': even while an expiry is outstanding; the default waits for a quiet moment)
                ops.append((t, 'clockstep %d%s' % (int(round(op['dt'] * 1000)), ' any' if op.get('any') else '')))
        # stable sort by time keeps per-connection order
        for i, (t, s) in sorted(enumerate(ops), key=lambda x: (x[1][0], x[0])):
            L.append('op %.6f %s' % (t, s))
    lw.script = '\n'.join(L) + '\n'
    return lw


class Simd:
    """a persistent `simd serve` process"""

    def __init__(self, exe=None):
        self.exe = exe or (BUILD + '/simd')
        self.p = None

    def start(self):
        self.p = subprocess.Popen([self.exe, 'serve'], stdin=subprocess.PIPE,
                                  stdout=subprocess.PIPE, stderr=subprocess.DEVNULL)

    def run(self, script, hist):
        if self.p is None or self.p.poll() is not None:
            self.start()
        try:
            self.p.stdin.write(('%s %s\n' % (script, hist)).encode())
            self.p.stdin.flush()
            line = self.p.stdout.readline()
        except (BrokenPipeError, OSError):
            line = b''
        if not line.startswith(b'done'):
            self.close()
            return 2
        return int(line.split()[1])

    def close(self):
        if self.p is not None:
            try:
                self.p.stdin.close()
                self.p.wait(timeout=5)
            except Exception:
                self.p.kill()
            self.p = None


_SIMD = None


def make_rundir(plan):
    rundir = tempfile.mkdtemp(prefix='echse-sim-', dir=SHM)
    os.makedirs(rundir + '/bin')
    os.makedirs(rundir + '/var/spool')
    with open(rundir + '/bin/echsx', 'w') as f:
        f.write('#!/bin/sh\n')
    os.chmod(rundir + '/bin/echsx', 0o755)
    for u in user_table(plan, rundir):
        os.makedirs(u[3], exist_ok=True)
    return rundir


def execute(plan, keep=False):
    """run PLAN through simd; returns (history records, lowered, logs)"""
    global _SIMD
    if _SIMD is None:
        _SIMD = Simd()
    rundir = make_rundir(plan)
    try:
        lw = lower(plan, rundir)
        with open(rundir + '/plan.txt', 'w') as f:
            f.write(lw.script)
        rc = _SIMD.run(rundir + '/plan.txt', rundir + '/hist.jsonl')
        hist = []
        if rc == 0:
            with open(rundir + '/hist.jsonl', 'rb') as f:
                for line in f:
                    try:
                        hist.append(json.loads(line.decode('utf-8', 'replace')))
                    except ValueError:
                        hist.append({'k': 'garbled', 'raw': line[:200].decode('latin1')})
        logs = {}
        for ei in range(len(plan['epochs'])):
            fn = '%s/epoch%d.log' % (rundir, ei)
            if os.path.exists(fn):
                with open(fn, 'rb') as f:
                    logs[ei] = f.read()[-20000:].decode('latin1').replace(rundir, '$R')
        return hist, lw, logs, rc
    finally:
        if keep:
            print('rundir kept:', rundir)
        else:
            shutil.rmtree(rundir, ignore_errors=True)


def canon_hash(hist):
    """hash of a history (pids and paths are already canonical)"""
    h = hashlib.sha256()
    for r in hist:
        h.update(json.dumps(r, sort_keys=True).encode())
    return h.hexdigest()
