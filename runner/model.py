"""Reference model of the daemon and the oracle rules (DESIGN.md section 5).

The model is stepped through the recorded history.  It never looks inside
the daemon: it sees replies on client sockets, GET bodies, spawns (argv +
captured VTODO + time), spool system calls and file snapshots, which exits
the scheduler delivered, and the watcher starts/stops at the libev API
boundary."""
import bisect
import re

from . import ical

RULE_PROP = {
    'R-ONCE': 'C04', 'R-SPUR': 'C04', 'R-EARLY': 'C04', 'R-PAST': 'C04',
    'R-GONE': 'C04', 'R-NEXT': 'C04', 'R-RUNMODE': 'C04',
    'R-FIELDS': 'C05', 'R-RESTART': 'C05', 'R-DUR': 'C05',
    'R-SPOOL': 'C06', 'R-DURABLE': 'C06', 'R-CLEAN': 'C06', 'R-SNAP': 'C06',
    'R-REPLY': 'C11', 'R-MAP': 'C11', 'R-LIST': 'C11', 'R-ISOL': 'C11',
    'R-RUNAS': 'C11', 'R-REPLYUID': 'C11', 'R-SERVE': 'C11',
    'R-LIMIT': 'C12', 'R-NORUN': 'C12', 'R-INDEP': 'C12',
    'R-CRASHFREE': '*',
}


class QTask:
    __slots__ = ('uid', 'owner', 'task', 'occ', 'ptr', 'L', 'gen', 'N',
                 'loaded_iter', 'touched_iter', 'last_due_iter', 'stopped',
                 'epoch', 'dur', 'accepted_t', 'lineage', 'via', 'cal')

    def __init__(self, uid, owner, task, occ, L, gen, N, it, epoch):
        self.uid = uid
        self.owner = owner
        self.task = task
        self.occ = occ
        self.L = L
        self.ptr = bisect.bisect_left(occ, L)
        self.gen = gen
        self.N = N
        self.loaded_iter = it
        self.touched_iter = -1
        self.last_due_iter = None
        self.stopped = False
        self.epoch = epoch
        self.accepted_t = L
        # incarnations linked by replacement share a lineage; a cancel or a
        # retirement ends it (leftover executions of a cancelled task do not
        # count against a task added later under the same UID)
        self.lineage = gen
        self.via = 'echsq'
        self.cal = None

    def finished(self):
        return self.ptr >= len(self.occ)

    def clone(self):
        q = QTask(self.uid, self.owner, self.task, self.occ, self.L, self.gen,
                  self.N, self.loaded_iter, self.epoch)
        q.ptr = self.ptr
        q.via = self.via
        q.cal = self.cal
        return q


class Model:
    def __init__(self, plan, lowered, opts=None):
        self.plan = plan
        self.lw = lowered
        self.opts = opts or {}
        self.tasks = {t['id']: t for t in plan['tasks']}
        self.users = {u['uid']: u for u in plan.get('users', [])}
        self.users.setdefault(0, {'uid': 0, 'gid': 0, 'name': 'root'})
        self.daemon_uid = plan['cfg'].get('daemon_uid', 0)
        self.queue = {}
        self.snap = {}          # owner -> {uid: QTask clone}
        self.dirty = set()      # owners with acknowledged changes since last snapshot
        self.running = {}       # pid -> dict
        self.viol = []
        self.stats = {}
        self.probes = {}
        self.epoch = -1
        self.W = None
        self.iter = 0
        self.conn = {}          # c -> state of this epoch
        self.cur_cb = None
        self.spawn_fault_uids = set()
        self.iter_spawns = {}   # uid -> count in this iteration
        self.armed = {}         # reload: uid -> (owner, past)
        self.last_resched = {}
        self.reload_checked = True
        self.gen = 0
        self.sigs = []
        self.expired_cb_in_iter = False
        self.child_cb_in_iter = False
        self.io_cb_in_iter = False
        self.first_uid_interned = None
        self.relax = 0
        self.ended_tasks = {}   # uid -> iter when it became finished & all exits delivered
        self.stop_seen = {}     # uid -> iter of last stop record
        self.gone_relaxed = set()
        self.last_crash_at = None
        self.exhausted_at_restart = {}
        self.fault_iter = None
        self.fault_epoch = None
        self.sigterm_epoch = None
        self.fault_in_shutdown = False
        self.start_seen = {}

    # ------------------------------------------------------------ helpers
    def v(self, rule, sig, detail):
        self.viol.append({'rule': rule, 'prop': RULE_PROP.get(rule, '?'),
                          'sig': sig, 'detail': detail, 't': self.W,
                          'epoch': self.epoch, 'iter': self.iter})

    def probe(self, name, n=1):
        self.probes[name] = self.probes.get(name, 0) + n

    def stat(self, name, n=1):
        self.stats[name] = self.stats.get(name, 0) + n

    def limit_of(self, task, cal):
        sp = task['spec']
        n = sp.get('maxsimul')
        if n is None and cal:
            n = cal.get('maxsimul')
        return None if n is None else int(n)

    def occ_of(self, task):
        return task['occ']

    # ------------------------------------------------------------ driver
    def run(self, hist):
        for r in hist:
            k = r.get('k')
            f = getattr(self, 'on_' + k.replace('-', '_'), None)
            if f is not None:
                f(r)
        return self.viol

    # ------------------------------------------------------------ epochs
    def on_epoch(self, r):
        self.close_iter()
        self.epoch = r['n']
        self.W = r['t']
        self.iter = 0
        self.fault_in_shutdown = False
        self.conn = {}
        self.cur_cb = None
        self.armed = {}
        self.last_resched = {}
        self.stop_seen = {}
        self.start_seen = {}
        self.ended_tasks = {}
        if self.epoch > 0:
            # a new process: only the spool survives
            newq = {}
            for owner, snap in self.snap.items():
                for uid, q in snap.items():
                    nq = QTask(uid, q.owner, q.task, q.occ, r['t'], q.gen, q.N, 0, self.epoch)
                    # occurrences consumed before the checkpoint stay consumed:
                    # the checkpoint describes "the occurrences not yet consumed"
                    nq.ptr = max(nq.ptr, q.ptr)
                    nq.via, nq.cal = q.via, q.cal
                    if nq.ptr < len(nq.occ):
                        newq[uid] = nq
                    else:
                        # nothing left to run: the daemon need not know it
                        self.exhausted_at_restart[uid] = nq
            self.queue = newq
            self.dirty = set()
            self.reload_checked = False
            # executions of the previous daemon are orphans now
            for p in self.running.values():
                p['orphan'] = True
            self.stat('restarts')

    def check_reload(self):
        """R-DURABLE: what the fresh daemon armed == last completed checkpoints"""
        if self.reload_checked:
            return
        self.reload_checked = True
        t0 = self.W
        exp = {u: q for u, q in self.queue.items() if q.ptr < len(q.occ)}
        got = {u: a for u, a in self.armed.items() if not a['past']}
        for u in sorted(set(exp) - set(got)):
            self.v('R-DURABLE', 'lost',
                   'task %r (owner %s) was in the last completed checkpoint with future occurrences but was not armed after restart' % (u, exp[u].owner))
        for u in sorted(set(got) - set(exp)):
            if u in self.queue or u in self.exhausted_at_restart:
                # armed although the model says all its occurrences are over
                self.v('R-RESTART', 'extra-occurrences',
                       'task %r has no occurrence left at restart time %.0f but the daemon armed it for %s' % (u, t0, got[u]['ret']))
            else:
                self.v('R-DURABLE', 'resurrected',
                       'task %r was armed after restart but is not in the last completed checkpoint (cancelled, never accepted, or belongs to nobody)' % u)
        for u in sorted(set(got) & set(exp)):
            if got[u]['owner'] != exp[u].owner:
                self.v('R-DURABLE', 'owner-changed',
                       'task %r owned by %s was armed for owner %s after restart' % (u, exp[u].owner, got[u]['owner']))
            # first occurrence the daemon sees after reload
            q = exp[u]
            nxt = q.occ[q.ptr]
            if abs(got[u]['ret'] - nxt) > 0.5:
                self.v('R-RESTART', 'next-occurrence',
                       'task %r: after restart at %.0f the next run is armed for %.0f, expected %.0f' % (u, t0, got[u]['ret'], nxt))
        # forget what the daemon no longer has, so one loss is one report
        for u in set(exp) - set(got):
            del self.queue[u]

    def cls(self, q):
        """coarse class of a task for violation signatures"""
        sp = q.task['spec']
        return '%s/r%d/d%d' % (q.task.get('family', '?'), len(sp.get('rules', [])),
                               len(sp.get('rdates', [])))

    def on_end(self, r):
        self.check_reload()
        how = r['how']
        if how == 'clean' or (how == 'crash-plan' and self.last_crash_at == 'event'):
            # the process ended between iterations: the last one is complete
            self.close_iter()
        self.last_crash_at = None
        if how == 'clean':
            self.stat('clean_shutdowns')
            # R-CLEAN: every acknowledged change is in the checkpoint
            for owner in sorted(self.dirty):
                if self.fault_in_shutdown:
                    self.relax += 1
                    continue
                # what a restart would bring back vs what was acknowledged
                live = {u: q.gen for u, q in self.queue.items()
                        if q.owner == owner and bisect.bisect_left(q.occ, self.W, q.ptr) < len(q.occ)}
                snap = {u: q.gen for u, q in self.snap.get(owner, {}).items()
                        if bisect.bisect_left(q.occ, self.W, q.ptr) < len(q.occ)}
                if live != snap:
                    diff = sorted(set(live.items()) ^ set(snap.items()))[:4]
                    self.v('R-CLEAN', 'not-checkpointed',
                           'after a clean shutdown the checkpoint of user %s differs from the acknowledged queue: %s'
                           % (owner, diff))
            self.check_gone(final=True)
        elif how == 'crash-plan':
            self.stat('crashes')
        else:
            self.v('R-CRASHFREE', how,
                   'daemon process ended by %s (code %s), not by plan' % (how, r.get('code')))

    def on_contract(self, r):
        self.v('R-CRASHFREE', 'libev-contract', r.get('what'))

    def on_iter_cap(self, r):
        self.v('R-CRASHFREE', 'iter-cap', 'iteration cap reached (livelock?)')

    # ------------------------------------------------------------ iterations
    def on_iter(self, r):
        self.check_reload()
        self.close_iter()
        self.check_starved()
        self.W = r['t']
        self.iter = r['n']
        self.iter_spawns = {}
        self.spawn_fault_uids = set()
        self.cur_cb = None
        self.expired_cb_in_iter = False
        self.child_cb_in_iter = False
        self.io_cb_in_iter = False
        self.stat('iterations')
        if r.get('wk') in ('late', 'exact', 'stall'):
            self.stat('wake_' + r['wk'])

    def close_iter(self):
        """R-ONCE at the end of the iteration at time W"""
        if self.W is None or self.iter == 0:
            return
        W = self.W
        for uid, q in list(self.queue.items()):
            if q.loaded_iter >= self.iter or q.touched_iter == self.iter:
                continue
            j = bisect.bisect_left(q.occ, W, q.ptr)
            if j > q.ptr:
                due = q.occ[q.ptr:j]
                if uid in self.spawn_fault_uids:
                    self.relax += 1
                else:
                    self.v('R-ONCE', 'missed',
                           'task %r (%s): %d occurrence(s) %s fell due before %.3f and no execution was started in this iteration'
                           % (uid, self.cls(q), len(due), due[:3], W))
                q.ptr = j
        if self.expired_cb_in_iter and self.child_cb_in_iter:
            self.probe('exit_and_expiry_same_iteration')
        if self.expired_cb_in_iter and self.io_cb_in_iter:
            self.probe('command_and_expiry_same_iteration')
        self.check_gone()

    def check_gone(self, final=False):
        """R-GONE: finished tasks leave the queue"""
        for uid, q in list(self.queue.items()):
            if not q.finished():
                continue
            # executions of this task whose exit the daemon has not seen
            busy = [p for p in self.running.values()
                    if p['uid'] == uid and not p['delivered'] and not p.get('orphan')]
            if busy:
                self.ended_tasks.pop(uid, None)
                continue
            if uid not in self.ended_tasks:
                self.ended_tasks[uid] = self.iter
            if q.stopped:
                # retired: drop from the model too
                del self.queue[uid]
                self.ended_tasks.pop(uid, None)
                self.stat('retired')
            elif uid in self.gone_relaxed:
                pass
            elif (final and self.iter > self.ended_tasks[uid]) or \
                    self.iter - self.ended_tasks[uid] >= 3:
                self.v('R-GONE', 'not-retired:' + ('never-ran' if q.last_due_iter is None else 'after-last-run'),
                       'task %r has no occurrence left and no execution outstanding since wake-up %d but is still scheduled at wake-up %d'
                       % (uid, self.ended_tasks[uid], self.iter))
                del self.queue[uid]
                self.ended_tasks.pop(uid, None)

    def on_cb(self, r):
        w = r['w']
        self.cur_cb = r
        if w == 'periodic':
            self.expired_cb_in_iter = True
        elif w == 'child':
            self.child_cb_in_iter = True
        elif w == 'io':
            self.io_cb_in_iter = True
        elif w == 'timer':
            self.stat('checkpoint_timer')

    def on_resched(self, r):
        self.last_resched[r['uid']] = r
        if r.get('ctx') == 'all':
            # libev rescheduling every periodic (after ev_loop_fork()), not an
            # expiry: what the daemon answers is its own business; what counts
            # are the executions it starts (R-ONCE)
            self.probe('periodics_rescheduled_wholesale')
            return
        # what the daemon asks to be woken for must be the task's next
        # occurrence: a daemon that sleeps past one is not "held up"
        if self.iter > 0 and not self.conn_of_cb():
            q = self.queue.get(r['uid'])
            if q is not None and q.loaded_iter < self.iter and q.touched_iter != self.iter:
                self.check_armed(q, r, self.W)

    def check_armed(self, q, r, W):
        j = bisect.bisect_left(q.occ, W, q.ptr)
        nxt = q.occ[j] if j < len(q.occ) else None
        ret = r.get('ret')
        if nxt is None:
            if not r.get('fin') and ret is not None and ret < 1e29:
                self.v('R-NEXT', 'armed-beyond-end',
                       'task %r has no occurrence at or after %.3f but the daemon armed it for %.0f' % (q.uid, W, ret))
        elif r.get('fin') or ret is None or abs(ret - nxt) > 0.5:
            self.v('R-NEXT', 'armed-for',
                   'task %r (%s): at %.3f the daemon armed the next run for %s, the next occurrence is %d'
                   % (q.uid, self.cls(q), W, 'never' if r.get('fin') else ret, nxt))

    def conn_of_cb(self):
        if self.cur_cb and self.cur_cb.get('w') == 'io' and 'c' in self.cur_cb:
            return self.conn.get(self.cur_cb['c'])
        return None

    def unseen_effect(self, kind, uid):
        """the peer has hung up: no reply will ever be seen, so what the
        instruction did is read off the watcher start/stop it caused"""
        c = self.conn_of_cb()
        if c is None or not c['pclosed'] or c['info'] is None:
            return
        instr = c['info']['instr']
        want = 'add' if kind == 'start' else 'cancel'
        for n in range(c['answered'], len(instr)):
            if instr[n][0] == want and instr[n][1] == uid:
                # everything before it that went unanswered had no effect
                for m in range(c['answered'], n):
                    if instr[m][0] == 'cancel' and instr[m][1] in c.get('stops', ()):
                        self.apply_instr(c, instr[m], True, None, 'unseen')
                    else:
                        self.apply_instr(c, instr[m], False, None, 'unseen')
                self.apply_instr(c, instr[n], True, None, 'unseen')
                c['answered'] = n + 1
                self.stat('unseen_replies')
                return
        if kind == 'stop':
            c.setdefault('stops', set()).add(uid)

    def on_start(self, r):
        uid = r['uid']
        rs = self.last_resched.get(uid, {})
        self.start_seen[uid] = self.iter
        self.unseen_effect('start', uid)
        if self.epoch > 0 and not self.reload_checked and self.iter == 0:
            self.armed[uid] = {'owner': r.get('owner'), 'past': bool(rs.get('past')),
                               'ret': rs.get('ret'), 'maxsimul': r.get('maxsimul')}

    def on_stop(self, r):
        uid = r['uid']
        self.stop_seen[uid] = self.iter
        q = self.queue.get(uid)
        in_io = bool(self.cur_cb and self.cur_cb.get('w') == 'io')
        if in_io:
            self.unseen_effect('stop', uid)
            q = self.queue.get(uid)
        if q is not None and not in_io and not q.finished() and uid in self.spawn_fault_uids \
                and self.W is not None and q.loaded_iter < self.iter \
                and bisect.bisect_left(q.occ, self.W, q.ptr) == len(q.occ):
            # its last occurrences fell due in this wake-up, the start of the execution failed on an injected
            # error (nothing ran, which R-ONCE forgives for exactly that), and the daemon retires the task
            q.ptr = len(q.occ)
        if q is not None and q.finished() and not in_io:
            # retired by the daemon: it is gone from now on
            q.stopped = True
            del self.queue[uid]
            self.ended_tasks.pop(uid, None)
            self.stat('retired')

    def on_clockstep(self, r):
        """the wall clock was set DT seconds ahead or back.  Executor lifetimes are real durations: what the
        model knows about running executions moves with the clock; occurrence times are wall-clock times and stay."""
        dt = r['dt']
        for p in self.running.values():
            p['t_exit'] += dt
            p['t_spawn'] += dt
        self.stat('clock_steps_forward' if dt > 0 else 'clock_steps_back')

    def on_signal(self, r):
        self.sigs.append(r['sig'])
        if r['sig'] in (2, 15):
            self.sigterm_epoch = self.epoch

    # ------------------------------------------------------------ connections
    def on_conn(self, r):
        info = self.lw.conns.get((self.epoch, r['c']))
        self.conn[r['c']] = {'info': info, 'buf': '', 'answered': 0, 'peer': r['peer'],
                             'accepted': False, 'closed': False, 'pclosed': False}
        self.stat('connections')
        nopen = sum(1 for c in self.conn.values() if not c['closed'] and not c['pclosed'])
        if nopen > 32:
            self.probe('more_than_32_open_connections')
        if nopen > 64:
            self.probe('more_than_64_open_connections')

    def on_accept(self, r):
        c = self.conn.get(r['c'])
        if c:
            c['open_at_accept'] = sum(1 for x in self.conn.values()
                                      if x['accepted'] and not x['closed'])
            c['accepted'] = True
            c['accept_iter'] = self.iter

    def on_send(self, r):
        c = self.conn.get(r['c'])
        if c:
            c['sent'] = c.get('sent', 0) + r.get('n', 0)
            c['send_iter'] = self.iter

    def check_starved(self):
        """bounded liveness: a connection the daemon accepted is read in the
        wake-up after its bytes arrived (level-triggered readiness).  One
        that has not been looked at three wake-ups later was lost."""
        for cid, c in self.conn.items():
            if c['accepted'] and not c['closed'] and c.get('sent', 0) > 0 and not c.get('got_recv') \
                    and not c['buf'] and not c.get('starved') \
                    and self.iter - max(c.get('accept_iter', 0), c.get('send_iter', 0)) >= 3:
                c['starved'] = True
                self.v('R-SERVE', 'starved',
                       'connection %d of peer %s was accepted at wake-up %d, %d bytes were sent by wake-up %d; at wake-up %d '
                       'the daemon has neither read nor closed it'
                       % (cid, c['peer'], c.get('accept_iter', 0), c.get('sent', 0), c.get('send_iter', 0), self.iter))

    def on_pclose(self, r):
        c = self.conn.get(r['c'])
        if c:
            c['pclosed'] = True

    def on_reply(self, r):
        c = self.conn.get(r['c'])
        if c is None or c['info'] is None:
            return
        c['buf'] += r['data']
        if c['info']['kind'] in ('add', 'cancel', 'raw'):
            self.eat_replies(c)

    def eat_replies(self, c):
        """consume complete VEVENT reply blocks, one per instruction"""
        while True:
            i = c['buf'].find('END:VEVENT\n')
            if i < 0:
                break
            blk = c['buf'][:i + 11]
            c['buf'] = c['buf'][i + 11:]
            j = blk.find('BEGIN:VEVENT\n')
            if j < 0:
                continue
            props = ical.parse_props(blk[j:])
            st = [v for k, p, v in props if k == 'REQUEST-STATUS']
            uid = [v for k, p, v in props if k == 'UID']
            status = st[0] if st else ''
            ok = status.startswith('2.')
            instr = c['info']['instr']
            n = c['answered']
            c['answered'] += 1
            if n >= len(instr):
                self.v('R-REPLY', 'surplus-reply',
                       'connection of peer %s got more replies than instructions sent (%d)' % (c['peer'], len(instr)))
                continue
            # (an incarnation that a later instruction of the same request replaces again was armed and disarmed
            # within this wake-up: there is no reschedule record of its own left to hold it against)
            self.apply_instr(c, instr[n], ok, uid[0] if uid else None, status,
                             superseded=any(i[1] == instr[n][1] for i in instr[n + 1:]))

    def expected_add(self, peer, uid, task, cal):
        """returns set of acceptable outcomes {'ok','fail'} per the property"""
        sp = task['spec']
        if self.daemon_uid != 0 and peer != self.daemon_uid:
            return {'fail'}
        q = self.queue.get(uid)
        if q is not None and q.owner != peer:
            return {'fail'}
        own = sp.get('owner')
        if own is None and cal:
            own = cal.get('owner')
        if own is not None:
            o = self.resolve_user(own)
            if o is None or o != peer:
                # naming somebody else (or nobody we know): it must never be
                # accepted AS that user; refusing it, or taking it as the
                # peer's own task, both keep users apart.  What happened is
                # read off the reply and R-RUNAS / R-LIST hold it to that.
                if sp.get('start') is None or peer not in self.users:
                    return {'fail'}
                return {'ok', 'fail'}
        if sp.get('start') is None:
            return {'fail'}
        if peer not in self.users:
            return {'fail'}
        return {'ok'}

    def resolve_user(self, x):
        try:
            n = int(str(x), 0)
            return n
        except ValueError:
            pass
        for u in self.users.values():
            if u['name'] == x:
                return u['uid']
        return None

    def apply_instr(self, c, ins, ok, ruid, status, superseded=False):
        verb, uid, tid = ins
        peer = c['peer']
        self.stat('instructions')
        if verb == 'add' and tid is None:
            self.stat('untracked_instructions')
            return
        if verb == 'add':
            task = self.tasks[tid]
            cal = c['info'].get('cal')
            exp = self.expected_add(peer, uid, task, cal)
            got = 'ok' if ok else 'fail'
            if got not in exp and not (status == 'unseen' and not ok):
                q = self.queue.get(uid)
                self.v('R-REPLY', 'add-%s-expected-%s' % (got, '/'.join(sorted(exp))),
                       'add of %r by peer %s answered %r; existing owner %s'
                       % (uid, peer, status, q.owner if q else None))
            if ok:
                old = self.queue.get(uid)
                if old is not None and old.owner != peer:
                    self.v('R-MAP', 'foreign-replace',
                           'peer %s replaced task %r owned by %s' % (peer, uid, old.owner))
                if old is not None:
                    self.stat('replaces')
                self.gen += 1
                q = QTask(uid, peer, task, self.occ_of(task), self.W, self.gen,
                          self.limit_of(task, cal), self.iter, self.epoch)
                if old is not None:
                    q.touched_iter = self.iter
                    q.lineage = old.lineage
                q.via = c['info'].get('via', 'echsq')
                q.cal = cal
                self.queue[uid] = q
                rs = self.last_resched.get(uid)
                if rs is not None and rs.get('t') == self.W and status != 'unseen' and not superseded:
                    self.check_armed(q, rs, self.W)
                self.dirty.add(peer)
                self.stat('adds_accepted')
                self.ended_tasks.pop(uid, None)
            else:
                self.stat('adds_refused')
        elif verb == 'cancel':
            q = self.queue.get(uid)
            exp = 'ok' if (q is not None and q.owner == peer) else 'fail'
            got = 'ok' if ok else 'fail'
            if got != exp and not (status == 'unseen' and not ok):
                self.v('R-REPLY', 'cancel-%s-expected-%s' % (got, exp),
                       'cancel of %r by peer %s answered %r; owner %s'
                       % (uid, peer, status, q.owner if q else None))
            if ok and q is not None:
                if q.owner != peer:
                    self.v('R-MAP', 'foreign-cancel',
                           'peer %s cancelled task %r owned by %s' % (peer, uid, q.owner))
                q.touched_iter = self.iter
                del self.queue[uid]
                self.dirty.add(q.owner)
                self.stat('cancels_accepted')
            else:
                self.stat('cancels_refused')
        if ruid is not None and uid is not None and ruid != uid:
            self.v('R-REPLYUID', 'wrong-uid',
                   'reply to %s of %r is labelled UID:%s' % (verb, uid, ruid))

    def on_dclose(self, r):
        c = self.conn.get(r['c'])
        if c is None or c['closed']:
            return
        c['closed'] = True
        info = c['info']
        if info is None:
            return
        if not c.get('got_recv') and not c['buf'] and c['answered'] == 0 and not c['pclosed'] \
                and (info['kind'] == 'get' or info['instr']):
            # turned away without being read
            if c.get('open_at_accept', 0) >= 64:
                self.stat('connections_refused')
            else:
                self.v('R-SERVE', 'refused',
                       'connection of peer %s was closed unread while only %d connections were open'
                       % (c['peer'], c.get('open_at_accept', 0)))
            return
        if info['kind'] == 'get':
            self.check_get(c)
        elif info['kind'] in ('add', 'cancel', 'raw'):
            self.eat_replies(c)
            if c['pclosed']:
                for m in range(c['answered'], len(info['instr'])):
                    self.apply_instr(c, info['instr'][m], False, None, 'unseen')
                c['answered'] = len(info['instr'])
            if c['answered'] < len(info['instr']) and not c['pclosed']:
                if not c.get('got_recv') and c['answered'] == 0:
                    # turned away without being read
                    if c.get('open_at_accept', 0) >= 64:
                        self.stat('connections_refused')
                    else:
                        self.v('R-SERVE', 'refused',
                               'connection of peer %s was closed unread while only %d connections were open'
                               % (c['peer'], c.get('open_at_accept', 0)))
                else:
                    self.v('R-REPLY', 'missing-reply',
                           'peer %s sent %d instructions, got %d replies before the daemon closed the connection'
                           % (c['peer'], len(info['instr']), c['answered']))

    on_dclosed = on_dclose

    def on_recv(self, r):
        c = self.conn.get(r['c'])
        if c is not None:
            c['got_recv'] = True

    # ------------------------------------------------------------ GET
    def check_get(self, c):
        path = c['info']['path']
        peer = c['peer']
        buf = c['buf']
        self.stat('gets')
        m = re.match(r'HTTP/1\.1 (\d+) [^\r\n]*\r\n\r\n', buf)
        if not m:
            self.v('R-REPLY', 'get-no-status', 'GET %s by %s: no HTTP status line in %r' % (path, peer, buf[:80]))
            return
        code = int(m.group(1))
        body = buf[m.end():]
        target = peer
        mm = re.match(r'/u/(\d+)/(.*)', path)
        route = path[1:]
        if mm:
            target = int(mm.group(1))
            route = mm.group(2)
        params = None
        if '?' in route:
            route, params = route.split('?', 1)
        if target != peer and peer != 0:
            if code == 403 and not body:
                return
            # not refused: then whatever is shown must be the caller's own
            # (it is judged as a listing of the caller's queue below)
            target = peer
        mine = {u: q for u, q in self.queue.items() if q.owner == target}
        others = {u: q for u, q in self.queue.items() if q.owner != target}
        if route == 'sched':
            if code != 200:
                self.v('R-LIST', 'sched-status', 'GET %s by %s answered %d' % (path, peer, code))
                return
            listed = {}
            for line in body.split('\n'):
                if not line:
                    continue
                parts = line.split('\t')
                listed[parts[0]] = parts[1] if len(parts) > 1 else ''
            asked = None
            if params:
                asked = [p[5:] for p in params.split('&') if p.startswith('tuid=')]
            for u in listed:
                if u in others or (u not in mine and u not in self.recently_gone(target)):
                    self.v('R-ISOL' if u in others else 'R-LIST', 'sched-foreign' if u in others else 'sched-unknown',
                           'GET %s by %s lists %r (owner %s)' % (path, peer, u, others[u].owner if u in others else None))
            for u, q in mine.items():
                if asked is not None and u not in asked:
                    continue
                if q.ptr < len(q.occ) and bisect.bisect_left(q.occ, self.W, q.ptr) < len(q.occ) and u not in listed:
                    self.v('R-LIST', 'sched-missing', 'GET %s by %s does not list %r which has future occurrences' % (path, peer, u))
            # R-NEXT: the listed next run is the next occurrence
            for u, rng in listed.items():
                q = mine.get(u)
                if q is None:
                    continue
                j = bisect.bisect_left(q.occ, self.W, q.ptr)
                if j >= len(q.occ):
                    continue
                exp = q.occ[j]
                got = self.parse_range_start(rng)
                if got is not None and got != exp:
                    self.v('R-NEXT', 'next-run',
                           'GET %s at %.3f: task %r next run listed as %s (%s), expected %s'
                           % (path, self.W, u, rng, got, exp))
        elif route == 'queue':
            if code == 404:
                uids = set()
            elif code == 500 and self.fault_iter == self.iter:
                # the checkpoint it asked for hit an injected failure and says so
                self.relax += 1
                return
            elif code != 200:
                self.v('R-LIST', 'queue-status', 'GET %s by %s answered %d' % (path, peer, code))
                return
            else:
                evs = ical.split_components(body, 'VEVENT')
                uids = set()
                for ev in evs:
                    for k, p, v in ev:
                        if k == 'UID':
                            uids.add(v)
            for u in uids:
                if u in others:
                    self.v('R-ISOL', 'queue-foreign', 'GET %s by %s shows %r of owner %s' % (path, peer, u, others[u].owner))
                elif u not in mine and u not in self.recently_gone(target):
                    self.v('R-LIST', 'queue-unknown', 'GET %s by %s shows %r which is not in the queue' % (path, peer, u))
            asked = None
            if params:
                asked = [p[5:] for p in params.split('&') if p.startswith('tuid=')]
            for u, q in mine.items():
                if asked is not None and u not in asked:
                    continue
                if bisect.bisect_left(q.occ, self.W, q.ptr) < len(q.occ) and u not in uids:
                    self.v('R-LIST', 'queue-missing', 'GET %s by %s (status %d) does not show %r which has future occurrences' % (path, peer, code, u))

    def recently_gone(self, owner):
        return set()

    @staticmethod
    def parse_range_start(rng):
        m = re.match(r'(\d{4})-(\d\d)-(\d\d)(?:T(\d\d):(\d\d):(\d\d))?', rng)
        if not m:
            return None
        g = m.groups()
        return ical.ymdhms2ts(int(g[0]), int(g[1]), int(g[2]), int(g[3] or 0), int(g[4] or 0), int(g[5] or 0))

    # ------------------------------------------------------------ spawns
    def on_spawnfault(self, r):
        if self.cur_cb and self.cur_cb.get('uid'):
            self.spawn_fault_uids.add(self.cur_cb['uid'])
            self.gone_relaxed.add(self.cur_cb['uid'])
        self.stat('spawnfaults_fired')

    def on_exit(self, r):
        p = self.running.get(r['pid'])
        if p is not None:
            p['delivered'] = True
            p['t_delivered'] = r['t']

    def on_spawn(self, r):
        W = self.W
        self.stat('spawns')
        if W is not None and r['t'] - W > 0.05:
            # the wall clock has run ahead of the loop time: earlier spawns of this wake-up took long
            self.stat('spawns_while_held_up')
            if r['t'] - W >= 1.0:
                self.stat('spawns_held_up_a_second_or_more')
        vt = ical.split_components(r['vtodo'], 'VTODO')
        props = vt[0] if vt else []
        pd = {}
        for k, p, v in props:
            pd.setdefault(k, []).append(v)
        uid = (pd.get('UID') or [r.get('task')])[0]
        norun = bool(r['norun'])
        q = self.queue.get(uid)
        self.running[r['pid']] = {'uid': uid, 'norun': norun, 't_spawn': W,
                                  't_exit': W + r['life'], 'delivered': False,
                                  'epoch': self.epoch, 'gen': q.gen if q else None,
                                  'lineage': q.lineage if q else None}
        n = self.iter_spawns.get(uid, 0)
        self.iter_spawns[uid] = n + 1
        if q is None:
            self.v('R-SPUR', 'unknown-task', 'execution started for %r which is not in the queue' % uid)
            return
        j = bisect.bisect_left(q.occ, W, q.ptr)
        due = q.occ[q.ptr:j]
        if not due:
            if n > 0:
                self.v('R-SPUR', 'double-spawn', 'task %r: second execution started in one wake-up' % uid)
            elif q.ptr < len(q.occ):
                self.v('R-EARLY', 'early',
                       'task %r: execution started at %.3f but its next occurrence is %s' % (uid, W, q.occ[q.ptr]))
            elif q.occ and q.occ[-1] < q.L:
                self.v('R-PAST', 'past', 'task %r was loaded at %.3f after its last occurrence %s but an execution was started' % (uid, q.L, q.occ[-1]))
            else:
                self.v('R-SPUR', 'no-occurrence-due', 'task %r: execution started at %.3f with all %d occurrences consumed' % (uid, W, len(q.occ)))
        else:
            if len(due) > 1:
                self.probe('collapsed_runs')
            q.ptr = j
            q.last_due_iter = self.iter
            if j > 64:
                self.probe('refill_crossed')
        # ---- C12
        N = q.N
        mine = [p for pid, p in self.running.items()
                if p['uid'] == uid and not p['norun'] and pid != r['pid'] and p['epoch'] == self.epoch
                and p['lineage'] == q.lineage]
        true_running = sum(1 for p in mine if p['t_exit'] > W)
        known_running = sum(1 for p in mine if not p['delivered'])
        if N is None:
            if norun:
                self.v('R-RUNMODE' if not self.any_limited() else 'R-INDEP', 'norun-unlimited',
                       'task %r has no MAX-SIMUL but was started in not-run mode (%s)' % (uid, r['argv']))
        else:
            if true_running >= N:
                self.probe('limit_reached')
            if not norun and true_running >= N:
                self.v('R-LIMIT', 'over-limit:N=%d' % N,
                       'task %r MAX-SIMUL %d: execution started while %d are running' % (uid, N, true_running))
            if norun and known_running < N:
                self.v('R-NORUN', 'refused-below-limit:N=%d' % N,
                       'task %r MAX-SIMUL %d: reported not-run although only %d executions are outstanding' % (uid, N, known_running))
            if norun:
                self.stat('norun_spawns')
        # ---- C11 runs-as
        su = (pd.get('X-ECHS-SETUID') or [None])[0]
        sg = (pd.get('X-ECHS-SETGID') or [None])[0]
        gid = self.users.get(q.owner, {}).get('gid', q.owner)
        if su != str(q.owner) or sg != str(gid):
            self.v('R-RUNAS', 'runs-as', 'task %r of owner %s/%s is executed as %s/%s' % (uid, q.owner, gid, su, sg))
        if self.opts.get('fields'):
            self.check_fields(q, pd, r)

    def any_limited(self):
        return any(q.N is not None for q in self.queue.values())

    def check_fields(self, q, pd, r):
        """R-FIELDS: the execution request carries what the spec says"""
        sp = q.task['spec']
        conn_via = q.via
        cal = q.cal or {}

        def one(k):
            v = pd.get(k)
            return v[0] if v else None
        exp = {}
        exp['SUMMARY'] = sp.get('cmd')
        home = '$R/home/%s' % self.users.get(q.owner, {}).get('name', '?')
        if conn_via == 'echsq':
            exp['X-ECHS-SHELL'] = sp.get('shell') or '/bin/sh'
            exp['LOCATION'] = sp.get('location') or '/'
            um = sp.get('umask') if sp.get('umask') is not None else cal.get('umask')
            exp['X-ECHS-UMASK'] = '0%o' % (int(str(um), 8) if um is not None else 0o022)
        else:
            exp['X-ECHS-SHELL'] = sp.get('shell') or self.users.get(q.owner, {}).get('shell', '/bin/sh')
            exp['LOCATION'] = sp.get('location') or home
            um = sp.get('umask') if sp.get('umask') is not None else cal.get('umask')
            exp['X-ECHS-UMASK'] = '0%o' % (int(str(um), 8) if um is not None else 0o066)
        for k, f in (('ifile', 'X-ECHS-IFILE'), ('ofile', 'X-ECHS-OFILE'), ('efile', 'X-ECHS-EFILE')):
            exp[f] = sp.get(k)
        for k, f in (('mailrun', 'X-ECHS-MAIL-RUN'), ('mailout', 'X-ECHS-MAIL-OUT'), ('mailerr', 'X-ECHS-MAIL-ERR')):
            v = sp.get(k)
            exp[f] = '1' if (v is not None and str(v)[:1] not in '0fF') else '0'
        org = sp.get('organizer')
        if org is not None and org.startswith('mailto:'):
            org = org[7:]
        exp['ORGANIZER'] = org or 'echse+simhost'
        for f, e in exp.items():
            g = one(f)
            if g != e:
                self.v('R-FIELDS', 'field:%s' % f,
                       'task %r: execution request has %s=%r, the task text says %r' % (q.uid, f, g, e))
        att = [a[7:] if a.startswith('mailto:') else a for a in sp.get('attendees', [])]
        if (pd.get('ATTENDEE') or []) != att:
            self.v('R-FIELDS', 'field:ATTENDEE', 'task %r: attendees %r, expected %r' % (q.uid, pd.get('ATTENDEE'), att))
        # duration handed over (seconds, rounded up)
        d = q.task.get('dur')
        if d is not None:
            g = one('DURATION')
            if g is None or self.parse_dur(g) != d:
                self.v('R-DUR', 'duration', 'task %r: execution request carries DURATION %r, expected %d s' % (q.uid, g, d))

    @staticmethod
    def parse_dur(s):
        if re.match(r'^\d+$', s):
            return int(s)
        m = re.match(r'^\+?P(?:(\d+)W)?(?:(\d+)D)?(?:T(?:(\d+)H)?(?:(\d+)M)?(?:(\d+)S)?)?$', s)
        if not m:
            return None
        w, d, h, mi, se = (int(x or 0) for x in m.groups())
        return ((w * 7 + d) * 24 + h) * 3600 + mi * 60 + se

    # ------------------------------------------------------------ spool
    def on_spoolcheck(self, r):
        self.stat('spoolchecks')
        if not r['ok']:
            self.v('R-SPOOL', 'torn:' + r.get('why', '?'),
                   'after %s (spool call %s) the live file %s is not a complete calendar: %s'
                   % (r.get('after'), r.get('kc'), r.get('file'), r.get('why')))

    def on_sys(self, r):
        self.stat('spool_calls')
        if r.get('inj'):
            self.stat('spoolfaults_fired')
            self.probe('spoolfault_' + r['call'])
            self.fault_iter = self.iter
            self.fault_epoch = self.epoch
            if self.sigterm_epoch == self.epoch:
                # the shutdown checkpoint itself was hit: nothing can retry it
                self.fault_in_shutdown = True

    def on_crash(self, r):
        self.stat('crash_at_' + r.get('at', '?'))
        self.last_crash_at = r.get('at')

    def on_snapshot(self, r):
        """a checkpoint completed (renameat returned 0) for one user"""
        m = re.match(r'echsq_(\d+)\.ics$', r['path'])
        if not m:
            return
        owner = int(m.group(1))
        self.stat('checkpoints_completed')
        data = r['data']
        if len(data) > 4096:
            self.probe('checkpoint_over_4k')
        evs = ical.split_components(data, 'VEVENT')
        uids = []
        for ev in evs:
            for k, p, v in ev:
                if k == 'UID':
                    uids.append(v)
        mine = {u: q for u, q in self.queue.items() if q.owner == owner}
        for u in uids:
            q = self.queue.get(u)
            if q is not None and q.owner != owner:
                self.v('R-ISOL', 'snapshot-foreign', 'checkpoint of user %s contains %r owned by %s' % (owner, u, q.owner))
            elif q is None:
                self.v('R-SNAP', 'snapshot-unknown', 'checkpoint of user %s contains %r which is not in the queue' % (owner, u))
        if len(set(uids)) != len(uids):
            self.v('R-SNAP', 'snapshot-duplicate', 'checkpoint of user %s lists a UID twice' % owner)
        for u, q in mine.items():
            if bisect.bisect_left(q.occ, self.W, q.ptr) < len(q.occ) and u not in uids:
                self.v('R-SNAP', 'snapshot-missing',
                       'checkpoint of user %s at %.3f lacks %r which has future occurrences' % (owner, self.W, u))
        self.snap[owner] = {u: q.clone() for u, q in mine.items()}
        self.dirty.discard(owner)
