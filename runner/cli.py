"""Command line of /verif/check."""
import argparse
import hashlib
import json
import os
import subprocess
import sys
import time

from . import engine, gen, minimise, model, sim

VERIF = '/verif'
# (scratch runs against another source tree - the sensitivity self-test - keep their output apart)
REPLAYS = os.environ.get('VERIF_OUT', VERIF) + '/replays'
EVIDENCE = os.environ.get('VERIF_OUT', VERIF) + '/evidence'
KNOWN = VERIF + '/known_findings.jsonl'

REAL_STUB = {
    'echsd.c (incl. main, option parsing, socket/accept/recv path, checkpointing, reload)': 'real, unmodified',
    'libechse (parser, serialiser, streams, RRULE engine, interner)': 'real',
    'echsq.c': 'real: wire bytes produced by its add/cancel --dry-run paths',
    'libev': 'model (virtual time), conformance-tested against the installed libev 4.33 at build time',
    'clock, peer credentials, passwd database, hostname': 'stub (simulated)',
    'spool files, socketpairs, pipes': 'real kernel objects, driven single-threaded by the simulator',
    'echsx executor': 'stub: scripted lifetime and exit status; VTODO request captured',
}

# property -> configuration of its campaign
PROPS = {
    'C04': {
        'engine': 'simd', 'profile': 'C04', 'level': 'exploration',
        'rules': ['R-ONCE', 'R-SPUR', 'R-EARLY', 'R-PAST', 'R-GONE', 'R-NEXT', 'R-RUNMODE', 'R-CRASHFREE'],
        'gopts': {'property': 'C04'}, 'mopts': {},
        'quick': {'budget': 55, 'runs': 100000}, 'thorough': {'budget': 900, 'runs': 10000000},
        'assumptions': [
            'occurrence times of the arithmetic task family are computed by the runner with timegm arithmetic, not by echse',
            'the libev model reproduces libev 4.33 ordering (checked by the conformance scenarios at build time)',
            'wall-clock steps: backward steps at moments when no expiry is outstanding are part of the campaign; forward steps and steps noticed while the daemon is held up past an occurrence lose that occurrence (known finding clock-step, replayed from witnesses)',
        ],
    },
    'C12': {
        'engine': 'simd', 'profile': 'C12', 'level': 'exploration',
        'rules': ['R-LIMIT', 'R-NORUN', 'R-INDEP', 'R-ONCE', 'R-SPUR', 'R-CRASHFREE'],
        'gopts': {'property': 'C12'}, 'mopts': {},
        'quick': {'budget': 55, 'runs': 100000}, 'thorough': {'budget': 900, 'runs': 10000000},
        'assumptions': [
            'true concurrency is known to the simulator because it scripts every executor lifetime',
            'a not-run report is accepted while the daemon cannot yet know that an execution has ended (exit not reaped)',
            'executions still running from a previous daemon process are not counted against the limit after a restart',
        ],
    },
    'C11': {
        'engine': 'simd', 'profile': 'C11', 'level': 'exploration',
        'rules': ['R-REPLY', 'R-MAP', 'R-LIST', 'R-ISOL', 'R-RUNAS', 'R-REPLYUID', 'R-SERVE', 'R-SNAP',
                  'R-DURABLE', 'R-CRASHFREE'],
        'gopts': {'property': 'C11'}, 'mopts': {},
        'quick': {'budget': 55, 'runs': 100000}, 'thorough': {'budget': 900, 'runs': 10000000},
        'assumptions': [
            'no two distinct UID strings of one run share their full 32-bit hash (the daemon keys tasks by that hash)',
            'requests are delivered whole; fragmentation is C10',
        ],
    },
    'C05': {
        'engine': 'simd', 'profile': 'C05', 'level': 'exploration',
        'rules': ['R-FIELDS', 'R-DUR', 'R-RESTART', 'R-ONCE', 'R-SPUR', 'R-EARLY', 'R-NEXT', 'R-DURABLE', 'R-SNAP',
                  'R-REPLY', 'R-CRASHFREE'],
        'gopts': {'property': 'C05'}, 'mopts': {'fields': True},
        'quick': {'budget': 40, 'runs': 100000}, 'thorough': {'budget': 900, 'runs': 10000000},
        'assumptions': [
            'field values contain no backslashes (escape semantics are undocumented); lines stay below the 1 KiB limit',
            'tasks of the strict campaign have one RRULE and no RDATE/EXDATE/EXRULE (known finding C05/serialise-multi is replayed separately)',
            'occurrence times after each restart are computed by the runner, not by echse',
        ],
    },
    'C05RT': {
        'engine': 'simp', 'profile': 'C05RT', 'level': 'exploration', 'stage_of': 'C05',
        'rules': ['R-RT', 'R-CRASHFREE'],
        'gopts': {'avoid_multi': False}, 'mopts': {},
        'quick': {'budget': 25, 'runs': 100000}, 'thorough': {'budget': 600, 'runs': 10000000},
        'assumptions': [
            'the oracle is the code itself: a control copy of the same task that consumed k occurrences and was never written; no second recurrence engine is involved, so wrong-but-consistent recurrence results (C01/C02) are invisible here',
            'inputs on which the recurrence engine itself crashes or does not terminate within 10 s are set aside (counted as engine_crash / rt_timeout), they are C01/C02 matter',
        ],
        'technique': 'seeded simulation of the task life-cycle at the library seam: consume k, write (echs_task_icalify), re-read, compare with an unwritten control at every prefix k',
    },
    'C03': {
        'engine': 'simp', 'profile': 'C03', 'level': 'exploration',
        'rules': ['R-MERGE', 'R-PEEK', 'R-CLONE', 'R-CRASHFREE'],
        'gopts': {}, 'mopts': {},
        'quick': {'budget': 45, 'runs': 100000}, 'thorough': {'budget': 600, 'runs': 10000000},
        'assumptions': [
            'echse has no concurrent callers: the "schedule" is the sequence of API calls (pop, peek, clone+drain, serialise) issued by one caller; this is a stateful-API check driven by a seeded scheduler, not a concurrency result',
            'constituents come from the arithmetic rule family (SECONDLY..DAILY with INTERVAL, COUNT/UNTIL, RDATE lists, date and date-time values) whose occurrence lists the runner computes itself',
            'the order among different UIDs at the same instant is unspecified and not checked',
        ],
        'technique': 'seeded call-schedule simulation of a stateful streaming API against a sort+unique reference model (daemon-driven schedules of the same streams are covered by C04/C12)',
    },
    'C13': {
        'engine': 'simx', 'profile': 'C13', 'level': 'exploration',
        'rules': ['R-ONCEX', 'R-RUNSPEC', 'R-ROUTE', 'R-MAIL', 'R-JOURNAL', 'R-CRASHFREE'],
        'gopts': {}, 'mopts': {},
        'quick': {'budget': 50, 'runs': 100000}, 'thorough': {'budget': 600, 'runs': 10000000},
        'assumptions': [
            'the job is a scripted actor writing position-coded bytes to the descriptors echsx planned for it (real pipes and files), not a real shell; /usr/sbin/sendmail is a recorder',
            'setuid/setgid, getrusage, the clock and alarm() are simulated; descriptor plumbing, splice(2), sendfile(2), file locks and temporary files are real kernel calls',
            'when the stdout and stderr patterns share a file their newlines cannot be told apart; the check is order-preserving-merge plus exact lengths',
        ],
        'technique': 'deterministic simulation of the executor: real echsx.c under a virtual-time libev model with a scripted job actor, seeded schedules of job steps vs event-loop polls, injected short transfers / delayed exit notification / spawn and open failures',
    },
    'C14': {
        'engine': 'chain', 'profile': 'C14', 'level': 'exploration',
        'rules': ['R-DEADLINE', 'R-CRASHFREE'],
        'gopts': {}, 'mopts': {},
        'quick': {'budget': 45, 'runs': 100000}, 'thorough': {'budget': 600, 'runs': 10000000},
        'assumptions': [
            'the job is a scripted actor with a virtual lifetime; alarm(), the SIGALRM handler, kill() and the clock are simulated, so "killed" means the registered handler signalled the job\'s pid at that virtual time',
            'limits are whole seconds from 1 s to 2 weeks in the spellings PTnS, PTnMnS, PTnHnMnS, PnD, PnDTnH, PnW, +PTnS and as DTEND; DUE is exercised at the executor only (the daemon never writes DUE)',
            'scheduling jitter allowance: 1.5 s around the limit, plus any stall the plan injects between arming the alarm and spawning the job',
        ],
        'technique': 'deterministic simulation chained over two engines: simd (real echsq bytes -> real echsd) hands the captured execution request to simx (real echsx) on a virtual alarm clock',
    },
    'C10': {
        'engine': 'simp', 'profile': 'C10', 'level': 'exploration',
        'rules': ['R-CHUNK', 'R-CRASHFREE'],
        'gopts': {}, 'mopts': {},
        'quick': {'budget': 50, 'runs': 100000}, 'thorough': {'budget': 900, 'runs': 10000000},
        'assumptions': [
            'the reference delivery is the same input handed over in one piece (as large as the reader loop\'s buffer allows) through the same reader loop',
            'two reader loops are driven: the echsd socket loop (4 KiB pieces, empty push at end of stream) and the file/stdin loop shared by echsd reload, echsx and echsq',
            'in mode x every piece lives in an exactly sized heap block that is freed after its pulls, so reading past a piece or keeping pointers into it is a sanitizer report',
        ],
        'technique': 'deterministic simulation of the transport: seeded and enumerated partitions of a byte stream fed through the real reader loops, metamorphic oracle against the one-piece delivery, sanitizers',
    },
    'C06': {
        'engine': 'simd', 'profile': 'C06', 'level': 'fault_enumeration',
        'rules': ['R-SPOOL', 'R-DURABLE', 'R-CLEAN', 'R-SNAP', 'R-RESTART', 'R-ONCE', 'R-SPUR', 'R-LIST', 'R-CRASHFREE'],
        'gopts': {'property': 'C06'}, 'mopts': {},
        'quick': {'budget': 45, 'runs': 100000}, 'thorough': {'budget': 900, 'runs': 10000000},
        'assumptions': [
            '"crash" is a crash of the echsd process (only what the kernel has survives); power loss without fsync is out of scope, echsd never calls fsync',
            'a completed checkpoint for a user is defined by the observable event renameat() returned 0 for that user\'s file',
            'histories (request sequences) are sampled; the crash and fault positions of each sampled history are enumerated completely',
        ],
    },
}


def build():
    p = subprocess.run(['make', '-s', '-C', VERIF, '-j16', 'build', 'REPO=' + os.environ.get('VERIF_REPO', '/repo'),
                        'B=' + os.environ.get('VERIF_BUILD', VERIF + '/build')], stdout=subprocess.PIPE,
                       stderr=subprocess.STDOUT)
    if p.returncode != 0:
        sys.stdout.write(p.stdout.decode('latin1')[-4000:])
        print('BUILD FAILED')
        return False
    return True


def load_known():
    out = []
    if os.path.exists(KNOWN):
        for line in open(KNOWN):
            line = line.strip()
            if line.startswith('{'):
                out.append(json.loads(line))
    return out


def sig_of(v):
    return v['rule'] + ' ' + v['sig']


def match_known(v, known):
    for k in known:
        if k.get('status') != 'known':
            continue
        if k['rule'] == v['rule'] and (k['sig'] == v['sig'] or
                                      (k['sig'].endswith('*') and v['sig'].startswith(k['sig'][:-1]))):
            return k
    return None


def relevant(v, cfg):
    return v['rule'] in cfg['rules']


def replay_file(path, quiet=False):
    """replay a plan file; returns (reproduced, violations)"""
    doc = json.load(open(path))
    if doc.get('engine') in ('simp', 'simx', 'chain'):
        return replay_simp(doc, path, quiet)
    plan = doc['plan']
    prop = doc.get('property', plan.get('property'))
    cfg = PROPS.get(prop, {})
    res1 = engine.check_plan(plan, doc.get('mopts') or cfg.get('mopts'))
    res2 = engine.check_plan(plan, doc.get('mopts') or cfg.get('mopts'))
    want = doc.get('expect')
    got = sorted(set(sig_of(v) for v in res1['viol']))
    same = res1['hash'] == res2['hash']
    hit = want is None or want in got
    if not quiet:
        print('replay %s: property=%s deterministic=%s history=%s' % (path, prop, same, res1['hash'][:16]))
        for v in res1['viol']:
            mark = '*' if want and sig_of(v) == want else ' '
            print(' %s %-12s %-34s %s' % (mark, v['rule'], v['sig'], v['detail'][:400]))
            if v.get('log') and mark == '*':
                print('      log tail: ' + v['log'][-1500:].replace('\n', '\n      '))
        if want:
            print('expected violation %r: %s' % (want, 'REPRODUCED' if hit else 'NOT reproduced'))
    return same and hit, res1


def simp_module(doc):
    if doc.get('kind') == 'c03':
        from . import c03
        return c03
    if doc.get('kind') == 'c05rt':
        from . import c05rt
        return c05rt
    if doc.get('kind') == 'c13':
        from . import c13
        return c13
    if doc.get('kind') == 'c14':
        from . import c14
        return c14
    from . import c10
    return c10


def replay_simp(doc, path, quiet=False):
    mod = simp_module(doc)
    v1 = mod.replay(doc)
    v2 = mod.replay(doc)
    want = doc.get('expect')
    got1 = sorted(set(sig_of(v) for v in v1))
    got2 = sorted(set(sig_of(v) for v in v2))
    same = got1 == got2
    hit = want is None or want in got1
    if not quiet:
        print('replay %s: property=%s deterministic=%s' % (path, doc.get('property'), same))
        for v in v1:
            print('   %-12s %-28s %s' % (v['rule'], v['sig'], v['detail'][:600]))
        if want:
            print('expected violation %r: %s' % (want, 'REPRODUCED' if hit else 'NOT reproduced'))
    return same and hit, {'viol': v1, 'hash': ''}


def write_replay_doc(prop, doc):
    os.makedirs(REPLAYS, exist_ok=True)
    h = hashlib.sha1(json.dumps(doc, sort_keys=True).encode()).hexdigest()[:12]
    path = '%s/%s-%s-%s.json' % (REPLAYS, prop, doc['expect'].split()[0], h)
    with open(path, 'w') as f:
        json.dump(doc, f, indent=1)
    return path


def write_replay(prop, plan, v, mopts, tag):
    os.makedirs(REPLAYS, exist_ok=True)
    h = hashlib.sha1((sig_of(v) + json.dumps(plan, sort_keys=True)).encode()).hexdigest()[:12]
    path = '%s/%s-%s-%s.json' % (REPLAYS, prop, v['rule'], h)
    doc = {'property': prop, 'expect': sig_of(v), 'detail': v['detail'], 'tag': tag,
           'mopts': mopts, 'plan': plan}
    with open(path, 'w') as f:
        json.dump(doc, f, indent=1)
    return path


def minimise_violation(prop, plan, v, cfg, want=None):
    want = want or sig_of(v)
    mopts = cfg.get('mopts')

    def pred(p):
        r = engine.check_plan(p, mopts)
        if r.get('machinery'):
            return False
        return any(sig_of(x) == want for x in r['viol'])
    small, used = minimise.minimise(plan, pred, max_runs=300)
    return small, used


def run_check(prop, tier, budget=None, runs=None, seed=None, workers=None, no_min=False, stage=None):
    """STAGE: key of a PROPS entry that is a further campaign of property PROP"""
    cfg = PROPS[stage or prop]
    t0 = time.time()
    if not build():
        return 2
    base_seed = int(os.environ.get('VERIF_SEED', seed if seed is not None else 20261003))
    tc = cfg[tier]
    budget = budget or tc['budget']
    runs = runs or tc['runs']
    known = [k for k in load_known() if k['property'] == prop and k.get('stage') == stage]

    # 1. known findings: replay their witnesses
    known_hit = 0
    for k in known:
        if k.get('status') != 'known':
            continue
        ws = k.get('witness') or []
        if isinstance(ws, str):
            ws = [ws]
        hit = False
        for w in ws:
            if os.path.exists(os.path.join(VERIF, w)):
                ok, _ = replay_file(os.path.join(VERIF, w), quiet=True)
                hit = hit or ok
        if hit:
            print('KNOWN-FINDING: property=%s %s' % (prop, k['text']))
            known_hit += 1

    # 2. campaign
    n = 0
    nontrivial = set()
    stats, probes = {}, {}
    simsec = 0.0
    sched_sigs = set()
    abs_states = set()
    machinery = []
    viols = {}        # signature -> (seed, violation)
    known_seen = {}
    samples = []
    relax = 0
    nvariants = ncalls = nvfired = 0
    simp_samples = []
    for res in engine.campaign(stage or prop, cfg['profile'], base_seed, tier, budget, runs,
                               cfg.get('gopts'), cfg.get('mopts'), workers):
        n += 1
        if res.get('machinery'):
            machinery.append((res['seed'], res['machinery']))
            continue
        for k, x in res['stats'].items():
            stats[k] = stats.get(k, 0) + x
        for k, x in res['probes'].items():
            probes[k] = probes.get(k, 0) + x
        relax += res.get('relax', 0)
        nvariants += res.get('variants', 0)
        ncalls += res.get('calls', 0)
        nvfired += res.get('variants_fired', 0)
        simsec += res['simsec']
        sched_sigs.add(res.get('sched_sig'))
        for s in res.get('abs_states', []):
            abs_states.add(tuple(s))
        st = res['stats']
        if (st.get('spawns', 0) + st.get('instructions', 0) > 0) and \
           (st.get('iterations', 0) > 2) and \
           (st.get('wake_late', 0) + st.get('wake_exact', 0) + st.get('wake_stall', 0) + st.get('crashes', 0)
            + st.get('spoolfaults_fired', 0) + st.get('spawnfaults_fired', 0) + st.get('restarts', 0) > 0):
            nontrivial.add(res.get('plan_hash'))
        if len(samples) < 3 and st.get('spawns', 0) > 0:
            samples.append(res['seed'])
        if cfg['engine'] in ('simp', 'simx', 'chain'):
            if res.get('nops', 0) > 1 and (res.get('probes') or cfg['engine'] != 'simp'):
                nontrivial.add(res.get('plan_hash'))
            if len(simp_samples) < 3 and res.get('sample'):
                simp_samples.append(res['sample'])
        for v in res['viol']:
            if not relevant(v, cfg):
                continue
            s = sig_of(v)
            if s not in viols:
                viols[s] = (res['seed'], v)
    wall_campaign = time.time() - t0

    # 3. minimise + gate every violation
    rc = 0
    out_viol = []
    for s, (sd, v) in sorted(viols.items()):
        if cfg['engine'] in ('simp', 'simx', 'chain'):
            doc = {'property': prop, 'engine': cfg['engine'], 'kind': cfg['profile'].lower(), 'expect': s,
                   'detail': v['detail'], 'tag': 'seed=%d' % sd}
            for k in ('input', 'loop', 'mode', 'sizes', 'sched', 'expected', 'case', 'expects', 'strict'):
                if k in v:
                    doc[k] = v[k]
            mod = simp_module(doc)
            a = mod.replay(doc)
            b = mod.replay(doc)
            if not any(sig_of(x) == s for x in a) or sorted(sig_of(x) for x in a) != sorted(sig_of(x) for x in b):
                print('MACHINERY: violation %r of seed %d did not reproduce' % (s, sd))
                rc = max(rc, 2)
                continue
            if not no_min and len(out_viol) < 6:
                try:
                    small = mod.minimise(doc, s)
                    if any(sig_of(x) == s for x in mod.replay(small)):
                        doc = small
                except Exception:
                    pass
            path = write_replay_doc(prop, doc)
            p = subprocess.run([sys.executable, VERIF + '/check', '--replay', path, '--quiet'],
                               stdout=subprocess.PIPE, stderr=subprocess.STDOUT)
            if p.returncode != 1:
                print('MACHINERY: fresh-process replay of %s did not reproduce (rc %d)' % (path, p.returncode))
                rc = max(rc, 2)
                continue
            print('VIOLATION property=%s replay=%s' % (prop, path))
            print('  rule=%s sig=%s seed=%d: %s' % (v['rule'], v['sig'], sd, v['detail'][:300]))
            out_viol.append(path)
            rc = max(rc, 1)
            continue
        plan = gen.gen(cfg['profile'], sd, tier, cfg.get('gopts'))
        full_sig = s
        if v.get('variant'):
            # a C06 violation under one enumerated fault: replay that fault, not the fault-free history
            plan = engine.apply_variant(plan, v['variant'])
            s = s.rsplit('@', 1)[0]
        r1 = engine.check_plan(plan, cfg.get('mopts'))
        r2 = engine.check_plan(plan, cfg.get('mopts'))
        again = any(sig_of(x) == s for x in r1['viol'])
        if r1['hash'] != r2['hash'] or not again:
            print('MACHINERY: violation %r of seed %d did not reproduce (hash %s vs %s)' %
                  (full_sig, sd, r1['hash'][:12], r2['hash'][:12]))
            rc = max(rc, 2)
            continue
        small = plan
        if not no_min and len(out_viol) < 6:
            small, used = minimise_violation(prop, plan, v, cfg, want=s)
        rs = engine.check_plan(small, cfg.get('mopts'))
        vv = [x for x in rs['viol'] if sig_of(x) == s]
        if not vv:
            small, vv = plan, [x for x in r1['viol'] if sig_of(x) == s]
        path = write_replay(prop, small, vv[0], cfg.get('mopts'), 'seed=%d' % sd)
        # fresh-process replay
        p = subprocess.run([sys.executable, VERIF + '/check', '--replay', path, '--quiet'],
                           stdout=subprocess.PIPE, stderr=subprocess.STDOUT)
        if p.returncode != 1:
            print('MACHINERY: fresh-process replay of %s did not reproduce (rc %d)' % (path, p.returncode))
            rc = max(rc, 2)
            continue
        print('VIOLATION property=%s replay=%s' % (prop, path))
        print('  rule=%s sig=%s seed=%d: %s' % (vv[0]['rule'], vv[0]['sig'], sd, vv[0]['detail'][:300]))
        out_viol.append(path)
        rc = max(rc, 1)
    if machinery:
        print('MACHINERY: %d runs failed in the harness, first: %r' % (len(machinery), machinery[0]))
        if len(machinery) > max(3, n // 100):
            rc = max(rc, 2)

    # 4. evidence
    wall = time.time() - t0
    if cfg['engine'] in ('simp', 'simx', 'chain'):
        sample_plans = simp_samples
    else:
        sample_plans = [gen.gen(cfg['profile'], sd, tier, cfg.get('gopts')) for sd in samples[:2]]
    for sp in sample_plans:
        for t in sp.get('tasks', []):
            if len(t.get('occ', [])) > 12:
                t['occ'] = t['occ'][:12] + ['... %d more' % (len(t['occ']) - 12)]
    faults = {k: v for k, v in stats.items() if k in (
        'spoolfaults_fired', 'spawnfaults_fired', 'crashes', 'clean_shutdowns', 'restarts',
        'crash_at_event', 'crash_at_write', 'crash_at_openat', 'crash_at_close', 'crash_at_renameat',
        'crash_at_unlinkat', 'connections_refused', 'wake_late', 'wake_exact', 'wake_stall', 'unseen_replies',
        'spawns_while_held_up', 'spawns_held_up_a_second_or_more', 'clock_steps_back', 'clock_steps_forward',
        'executors_stopped_or_continued')}
    ev = {
        'property_id': prop, 'tier': tier, 'seed': base_seed, 'level': cfg['level'],
        'coverage': {
            'evaluations': n, 'distinct_nontrivial': len(nontrivial),
            'rule': 'one evaluation = one simulated daemon life-cycle (1-3 process epochs) from a generated plan; '
                    'non-trivial = at least one instruction or executor spawn, more than 2 loop iterations and at least one fault or schedule perturbation actually fired (late/exact/stalled wake-up, crash, restart, injected call failure); '
                    'distinct = by hash of the plan',
            'samples': sample_plans or [{'note': 'no run with a spawn in this batch'}],
            'runs_per_hour': int(n / max(wall_campaign, 1e-9) * 3600),
            'simulated_seconds': int(simsec),
            'faults_fired': faults,
            'totals': stats, 'probes': probes,
            'schedule_signatures': len(sched_sigs), 'abstract_states': len(abs_states),
            'real_vs_stub': REAL_STUB,
            'relaxations_applied': relax,
            'known_findings_replayed': known_hit,
            'known_finding_hits_in_campaign': known_seen,
            'machinery_failures': len(machinery),
            'violations_reported': out_viol,
        },
        'assumptions': cfg.get('assumptions', []),
        'wall_s': round(wall, 2),
        'violations': len(out_viol),
    }
    if prop == 'C14':
        ev['coverage']['rule'] = (
            'one evaluation = one limit (1 s .. 2 weeks) in one spelling along the whole path user file -> echsq -> echsd -> echsx '
            '(or a DUE / well-formed DURATION request fed to echsx directly) with one job lifetime (well below, just below, just above, far beyond the limit); '
            'non-trivial = all of them (each runs the daemon and the executor); distinct = by hash of the case')
        ev['coverage']['real_vs_stub'] = {
            'echsq.c, echsd.c, echsx.c, libechse': 'real, unmodified', 'libev': 'model (virtual time)',
            'job': 'stub: scripted actor', 'alarm/SIGALRM/kill/clock': 'stub: virtual'}
    if prop == 'C13':
        ev['coverage']['rule'] = (
            'one evaluation = one execution request for one of the 20 documented routing rows run by the real echsx against a scripted job '
            '(0-10 write/sleep steps on stdout/stderr from 0 B to 1 MiB, optional early close, exit code or fatal signal), with seeded fault mix; '
            'non-trivial = the job has at least two steps; distinct = by hash of the case')
        ev['coverage']['rows_covered'] = sorted(k for k in stats if k.startswith('row_'))
        ev['coverage']['real_vs_stub'] = {
            'echsx.c (main, stdin reader, echsx(), prep_task, run_task, data_cb, mail_task, jlog_task)': 'real, unmodified',
            'libechse parser': 'real',
            'libev': 'model (virtual time)',
            'pipes, output files, temp files, journal file, splice, sendfile, fcntl locks': 'real kernel calls inside the run directory',
            'the job (posix_spawn of the shell)': 'stub: scripted actor on dups of the planned descriptors',
            'sendmail': 'stub: recorder', 'clock, alarm, kill, setuid/setgid, getrusage': 'stub',
        }
    if prop == 'C03':
        ev['coverage']['rule'] = (
            'one evaluation = one generated calendar (1-8 events, 0-6 RRULEs and optional RDATE list each, deliberate ties, '
            'all-day and timed values) merged with echs_evstrm_vmux and driven by a seeded schedule of pop/peek/clone-and-drain/serialise '
            'calls until three calls past the end; non-trivial = at least two constituent streams or rules and a tie, a clone or more than 64 events; '
            'distinct = by hash of (calendar, schedule)')
        ev['coverage']['real_vs_stub'] = {
            'libechse streams (evmux, evrrul, evical_vevent, evfilt) and parser': 'real',
            'caller': 'scripted: seeded sequence of API calls',
            'reference': 'independent: sort+unique over arithmetic occurrence lists',
        }
        ev['coverage'].pop('simulated_seconds', None)
    if prop == 'C10':
        ev['coverage']['rule'] = (
            'one evaluation = one input byte string (generated calendar, repository sample file, or a mutation/truncation) '
            'delivered under 40-250 partitions (1-byte, fixed sizes around the 1 KiB and 4 KiB limits, seeded random sizes, every single cut '
            'and sampled pairs of cuts at line ends, CR/LF, backslashes and fold blanks) through one of the two reader loops; '
            'each delivery is compared with the one-piece delivery; non-trivial = the input yields at least one instruction and was delivered '
            'in more than one way; distinct = by hash of (input, loop, block mode)')
        ev['coverage']['deliveries'] = stats.get('deliveries', 0)
        ev['coverage']['real_vs_stub'] = {
            'libechse parser (echs_evical_push/pull/last_pull, _ical_pull, esccpy, _ical_proc, snarf_*)': 'real',
            'reader loops of echsd (socket), echsd reload / echsx / echsq (file, stdin)': 're-implemented 1:1 in the harness around the real API (the originals are interleaved with process set-up)',
            'recurrence engine (for the occurrence part of the dump)': 'real; crashes inside it are counted separately and not attributed to C10',
        }
        ev['coverage'].pop('simulated_seconds', None)
    if stage == 'C05RT':
        ev['coverage']['rule'] = (
            'one evaluation = one generated calendar (1-3 events over the whole RRULE language: all FREQs, INTERVAL, COUNT/UNTIL, BYMONTH, '
            'BYMONTHDAY +/-, BYDAY with ordinals, BYYEARDAY, BYWEEKNO, BYEASTER, BYHOUR/BYMINUTE/BYSECOND, BYSETPOS, WKST, SHIFT, SCALE=HIJRI*, '
            'several RRULEs, RDATE, EXDATE/EXRULE, DATE and DATE-TIME starts, DURATION/DTEND, every task field, calendar-level defaults) x 5-12 '
            'consumption prefixes k (0, 1, mid-cache, 62..66, 126..129, COUNT-1..COUNT+1); for each k: parse twice, pop k from both, write one copy with '
            'the real serialiser, re-read, compare the re-read task with the unwritten control (fields, occurrences, durations), the written copy '
            'with the control (writing must not consume), the first parse with the README field mapping computed by the generator, and the text '
            'with an independent well-formedness check; non-trivial = more than one job ran; distinct = by hash of the calendar')
        ev['coverage']['real_vs_stub'] = {
            'libechse parser, serialiser (echs_icalify_init/echs_task_icalify/echs_icalify_fini), streams, RRULE engine, Hijri calendars': 'real',
            'caller': 'scripted: consume k, write into a memfd, re-read',
            'clock (DTSTAMP)': 'stub: pinned',
            'oracle': 'the code itself for occurrences (unwritten control copy); the generator\'s spec for the fields read from the text',
        }
        ev['coverage'].pop('simulated_seconds', None)
    if prop == 'C06':
        ev['coverage']['rule'] = (
            'one evaluation = one sampled request history whose checkpoint(s) after the MARK are enumerated completely: '
            'for every spool system call k (openat, each write, close, renameat, unlinkat) one run that crashes the daemon '
            'before call k and one run per plausible errno (plus a short write) that fails call k, each followed by a restart '
            'and a check of what the fresh daemon arms; non-trivial = the history has at least one such call and a fault fired; '
            'distinct = by hash of the plan')
        ev['coverage']['fault_positions'] = ncalls
        ev['coverage']['fault_variants_run'] = nvariants
        ev['coverage']['fault_variants_fired'] = nvfired
        ev['coverage']['exhaustive_within_each_history'] = True
        ev['coverage']['exhaustive'] = False
    os.makedirs(EVIDENCE, exist_ok=True)
    if stage:
        # a further campaign of PROP: goes into PROP's evidence file
        ev['coverage']['technique'] = cfg.get('technique')
        path = '%s/%s.json' % (EVIDENCE, prop)
        try:
            main_ev = json.load(open(path))
        except (OSError, ValueError):
            main_ev = {'property_id': prop, 'tier': tier, 'seed': base_seed, 'level': cfg['level'],
                       'coverage': {}, 'assumptions': [], 'wall_s': 0, 'violations': 0}
        ev['coverage']['assumptions'] = ev.pop('assumptions')
        main_ev['coverage']['stage_' + stage] = ev['coverage']
        main_ev['coverage']['stage_' + stage]['wall_s'] = ev['wall_s']
        main_ev['violations'] = main_ev.get('violations', 0) + ev['violations']
        main_ev['wall_s'] = round(main_ev.get('wall_s', 0) + ev['wall_s'], 2)
        ev = main_ev
    with open('%s/%s.json' % (EVIDENCE, prop), 'w') as f:
        json.dump(ev, f, indent=1)
    print('%s%s %s: %d runs (%d distinct non-trivial), %.0f simulated s, %d violations, %.1f s wall' %
          (prop, '/' + stage if stage else '', tier, n, len(nontrivial), simsec, len(out_viol), wall))
    return rc


STAGES = {'C05': ['C05RT']}


def run_all_stages(prop, tier, budget, runs, seed, workers, no_min):
    rc = run_check(prop, tier, budget, runs, seed, workers, no_min)
    for st in STAGES.get(prop, []):
        b = None
        if budget:
            # an explicit budget is shared in the proportion of the registered ones
            b = budget * PROPS[st][tier]['budget'] / float(PROPS[prop][tier]['budget'])
        rc = max(rc, run_check(prop, tier, b, runs, seed, workers, no_min, stage=st))
    return rc


def triage(prop, tier, budget, runs, seed, workers):
    cfg = PROPS[prop]
    if not build():
        return 2
    base_seed = int(os.environ.get('VERIF_SEED', seed if seed is not None else 20261003))
    cnt, first, n = {}, {}, 0
    mach = []
    for res in engine.campaign(prop, cfg['profile'], base_seed, tier, budget, runs,
                               cfg.get('gopts'), cfg.get('mopts'), workers):
        n += 1
        if res.get('machinery'):
            mach.append(res['machinery'])
        seen = set()
        for v in res['viol']:
            s = sig_of(v)
            if s in seen:
                continue
            seen.add(s)
            cnt[s] = cnt.get(s, 0) + 1
            if s not in first or res['nops'] < first[s][2]:
                first[s] = (res['seed'], v['detail'], res['nops'])
    print('%d runs' % n)
    for s in sorted(cnt, key=lambda x: -cnt[x]):
        mark = ' ' if s.split()[0] in cfg['rules'] else '-'
        print('%s %6d  %-40s seed=%d ops=%d  %s' % (mark, cnt[s], s, first[s][0], first[s][2], first[s][1][:160]))
    for m in mach[:3]:
        print('MACHINERY', m[:500])
    return 0


def debug_run(prop, idx, seed=None, full=False):
    cfg = PROPS[prop]
    build()
    base_seed = int(os.environ.get('VERIF_SEED', 20261003))
    sd = seed if seed is not None else engine.run_seed(prop, idx, base_seed)
    plan = gen.gen(cfg['profile'], sd, 'quick', cfg.get('gopts'))
    dump_plan_run(plan, cfg.get('mopts'), full)


def dump_plan_run(plan, mopts, full=False):
    hist, lw, logs, rc = sim.execute(plan)
    for r in hist:
        s = json.dumps(r)
        print(s if full else s[:260])
    m = model.Model(plan, lw, mopts)
    for v in m.run(hist):
        print('VIOL', v['rule'], v['sig'], v['detail'])
    for e, l in logs.items():
        print('--- log epoch', e)
        print(l[-3000:])


def main(argv):
    ap = argparse.ArgumentParser()
    ap.add_argument('prop', nargs='?')
    ap.add_argument('--tier', default=os.environ.get('VERIF_TIER', 'quick'))
    ap.add_argument('--budget', type=float)
    ap.add_argument('--runs', type=int)
    ap.add_argument('--seed', type=int)
    ap.add_argument('--workers', type=int)
    ap.add_argument('--replay')
    ap.add_argument('--quiet', action='store_true')
    ap.add_argument('--debug', nargs=2)
    ap.add_argument('--seedrun', type=int, help='with PROP: dump the run of this exact seed')
    ap.add_argument('--dump', help='run a replay file and print its history')
    ap.add_argument('--full', action='store_true')
    ap.add_argument('--no-min', action='store_true')
    ap.add_argument('--triage', action='store_true', help='campaign, print signature counts only')
    a = ap.parse_args(argv)
    if a.replay:
        if not a.quiet and not build():
            return 2
        ok, res = replay_file(a.replay, a.quiet)
        doc = json.load(open(a.replay))
        if doc.get('expect'):
            if ok:
                if not a.quiet:
                    print('VIOLATION property=%s replay=%s' % (doc.get('property'), a.replay))
                return 1
            return 0 if not any(True for _ in res['viol']) else 3
        return 1 if res['viol'] else 0
    if a.dump:
        build()
        doc = json.load(open(a.dump))
        dump_plan_run(doc['plan'], doc.get('mopts'), a.full)
        return 0
    if a.debug:
        debug_run(a.debug[0], int(a.debug[1]), full=a.full)
        return 0
    if a.seedrun is not None:
        debug_run(a.prop, 0, seed=a.seedrun, full=a.full)
        return 0
    if not a.prop or a.prop not in PROPS or PROPS[a.prop].get('stage_of'):
        print('usage: check <%s> [--tier quick|thorough]' % '|'.join(sorted(PROPS)))
        return 2
    if a.triage:
        return triage(a.prop, a.tier, a.budget or 20, a.runs or 100000, a.seed, a.workers)
    return run_all_stages(a.prop, a.tier, a.budget, a.runs, a.seed, a.workers, a.no_min)
