"""C13 (and the executor half of C14): echsx under the simx engine.

One evaluation = one execution request (VTODO) covering one of the 20
documented routing rows, a scripted job (writes to stdout/stderr of arbitrary
sizes and interleavings, sleeps, exit code or fatal signal) and a fault mix
(exit notification lag, short splice/sendfile, unopenable output file,
failing sendmail or job spawn)."""
import hashlib
import json
import os
import shutil
import subprocess
import tempfile
import time

from . import gen, ical
from .sim import SHM, BUILD

_SIMX = None


class Simx:
    def __init__(self):
        self.p = None

    def run(self, script, hist):
        if self.p is None or self.p.poll() is not None:
            self.p = subprocess.Popen([BUILD + '/simx', 'serve'], stdin=subprocess.PIPE,
                                      stdout=subprocess.PIPE, stderr=subprocess.DEVNULL)
        try:
            self.p.stdin.write(('%s %s\n' % (script, hist)).encode())
            self.p.stdin.flush()
            line = self.p.stdout.readline()
        except (BrokenPipeError, OSError):
            line = b''
        if not line.startswith(b'done'):
            try:
                self.p.kill()
            except Exception:
                pass
            self.p = None
            return 2
        return int(line.split()[1])


def pattern(which, n):
    """the bytes the actor writes to stream WHICH (1 stdout, 2 stderr)"""
    base = ord('a') if which == 1 else ord('A')
    b = bytearray(base + (i % 26) for i in range(n))
    for i in range(60, n, 61):
        b[i] = 10
    return bytes(b)


ROWS = [(so, se, mo, me) for so, se in ((None, None), (None, 'F'), ('F', None), ('F', 'same'), ('F1', 'F2'))
        for mo, me in ((1, 1), (1, 0), (0, 1), (0, 0))]


def gen_case(seed, tier, opts=None):
    opts = opts or {}
    g = gen.G(seed)
    row = ROWS[opts['row']] if opts.get('row') is not None else g.pick(ROWS)
    so, se, mo, me = row
    t0 = gen.T_BASE + g.rint(0, 86400 * 365 * 5)
    uid = g.pick([1000, 1001, 0])
    spec = {'uid': 'x%d@sim' % g.rint(0, 99), 'cmd': gen.rand_text(g, 1, g.pick([8, 40, 300])),
            'setuid': uid, 'setgid': g.pick([uid, 100, 0]),
            'mailout': mo, 'mailerr': me, 'mailrun': g.pick([0, 1, None])}
    if g.chance(0.6):
        spec['shell'] = g.pick(['/bin/sh', '/bin/bash', '/usr/bin/zsh'])
    if g.chance(0.6):
        spec['location'] = g.pick(['/work', '/home/u1000', '/var/tmp/x y'])
    if g.chance(0.6):
        spec['umask'] = g.pick([0o022, 0o077, 0o027, 0, 0o777, 0o002])
    if g.chance(0.3):
        spec['ifile'] = '/data/in.txt'
    if so:
        spec['ofile'] = '/out/o.txt' if so in ('F', 'F1') else None
    if se:
        spec['efile'] = {'F': '/out/e.txt', 'same': '/out/o.txt', 'F2': '/out/e2.txt'}[se]
    withmail = g.chance(0.75)
    if withmail:
        spec['organizer'] = g.pick(['echse+simhost', 'ops@example.com'])
        spec['attendees'] = [g.pick(['a@x.org', 'b@y.org']) for _ in range(g.rint(1, 3))]
    elif g.chance(0.5):
        spec['organizer'] = 'echse+simhost'
    flags = ['-v']
    if g.chance(0.08):
        flags.append('-n')
    # the job
    steps = []
    small = g.chance(0.5)
    for _ in range(g.rint(0, 10)):
        k = g.wpick([('w1', 4), ('w2', 3), ('s', 1.5)])
        if k == 's':
            steps.append(['s', round(g.pick([0.001, 0.3, 2.0, 30.0]), 3)])
        else:
            n = g.pick([0, 1, 17, 300, 4096]) if small else g.pick([1, 300, 4096, 65536, 70000, 200000, 1 << 20])
            steps.append(['w', int(k[1]), n])
    if g.chance(0.15):
        steps.append(['c', g.pick([1, 2])])
    endk = g.wpick([('x', 6), ('k', 2)])
    if endk == 'x':
        steps.append(['x', g.pick([0, 0, 1, 2, 3, 42, 126, 127, 255])])
    else:
        steps.append(['k', g.pick([9, 15, 11, 6, 2])])
    faults = {'exitlag': g.pick([0, 0, 1, 2, 3])}
    # (short splice(2) from the pipe is not injected: the kernel moves all
    # the pipe holds, and echsx relies on that when the job's exit
    # notification arrives together with its last output)
    g.chance(0.3), g.pick([1, 100, 4096, 65536])
    if g.chance(0.3):
        faults['sendfilemax'] = g.pick([1, 100, 4096])
    if g.chance(0.05) and so:
        faults['openfail'] = 1
        spec['ofile'] = '/out/FAILOPEN.txt'
        if se == 'same':
            spec['efile'] = spec['ofile']
    if g.chance(0.04):
        faults['mailfail'] = 'ENOENT'
    case_limit = None
    if g.chance(0.3):
        # a time limit the job stays within; it bounds the job, not the delivery of its mail afterwards
        total = sum(st[1] for st in steps if st[0] == 's')
        case_limit = int(total + 1) + g.pick([1, 3, 10, 60])
    if g.chance(0.3):
        # a synchronous delivery (sendmail -odi) that takes a while
        faults['maildelay'] = g.pick([0.5, 2, 15, 90])
    if g.chance(0.03):
        faults['spawnfail'] = 'EAGAIN'
    rfrag = g.pick([None, [1], [7, 100], [4096], [64]])
    # a silent grandchild keeps the job's descriptors open after the shell is gone: the pipes do not
    # reach end of file when the exit is reported (own generator, so that older seeds keep their cases)
    g2 = gen.G(seed ^ 0x6c696e67)
    if not case_limit and g2.chance(0.2):
        faults['linger'] = g2.pick([0.001, 0.5, 5, 120])
    # the executor starts anywhere within a second, also late in it (elapsed-time arithmetic has to borrow)
    t0 = t0 + g2.pick([0, 0, 0.25, 0.5, 0.9, 0.9995])
    case = {'v': 1, 'engine': 'simx', 'property': 'C13', 'seed': seed, 'start': t0, 'row': ROWS.index(row),
            'spec': spec, 'flags': flags, 'steps': steps, 'faults': faults, 'rfrag': rfrag,
            'ifile_content': 'input data\n' * g.rint(1, 5)}
    if case_limit:
        case['limit_line'] = 'DURATION:PT%dS' % case_limit
    return case


def vtodo_text(case):
    sp = case['spec']
    L = ['BEGIN:VCALENDAR', 'VERSION:2.0', 'BEGIN:VTODO', 'UID:' + sp['uid'], 'SUMMARY:' + sp['cmd'],
         'X-ECHS-SETUID:%d' % sp['setuid'], 'X-ECHS-SETGID:%d' % sp['setgid']]
    if sp.get('shell'):
        L.append('X-ECHS-SHELL:' + sp['shell'])
    if sp.get('location'):
        L.append('LOCATION:' + sp['location'])
    if case.get('limit_line'):
        L.append(case['limit_line'])
    if sp.get('umask') is not None:
        L.append('X-ECHS-UMASK:0%o' % sp['umask'])
    for k, f in (('mailrun', 'X-ECHS-MAIL-RUN'), ('mailout', 'X-ECHS-MAIL-OUT'), ('mailerr', 'X-ECHS-MAIL-ERR')):
        if sp.get(k) is not None:
            L.append('%s:%d' % (f, sp[k]))
    for k, f in (('ifile', 'X-ECHS-IFILE'), ('ofile', 'X-ECHS-OFILE'), ('efile', 'X-ECHS-EFILE')):
        if sp.get(k):
            L.append('%s:%s' % (f, sp[k]))
    if sp.get('organizer'):
        L.append('ORGANIZER:' + sp['organizer'])
    for a in sp.get('attendees', []):
        L.append('ATTENDEE:' + a)
    L += ['END:VTODO', 'END:VCALENDAR']
    return '\n'.join(L) + '\n'


def execute(case, keep=False):
    global _SIMX
    if _SIMX is None:
        _SIMX = Simx()
    rundir = tempfile.mkdtemp(prefix='echse-simx-', dir=SHM)
    try:
        root = rundir + '/root'
        for d in ('/tmp', '/out', '/data', '/work', '/home/u1000', '/home/u1001', '/home/u0', '/var/tmp/x y'):
            os.makedirs(root + d, exist_ok=True)
        with open(root + '/data/in.txt', 'w') as f:
            f.write(case.get('ifile_content', ''))
        text = case.get('vtodo') or vtodo_text(case)
        L = ['seed %d' % case['seed'], 'rundir %s' % rundir, 'start %.6f' % case['start']]
        for a in case['flags']:
            L.append('arg ' + a)
        for u in (0, 1000, 1001):
            L.append('user %d %d' % (u, u))
        L.append('stdin ' + text.encode('latin1').hex())
        if case.get('rfrag'):
            L.append('rfrag ' + ','.join(str(x) for x in case['rfrag']))
        for st in case['steps']:
            L.append('step ' + ' '.join(str(x) for x in st))
        for k, v in sorted(case.get('faults', {}).items()):
            L.append('%s %s' % (k, v))
        with open(rundir + '/script.txt', 'w') as f:
            f.write('\n'.join(L) + '\n')
        rc = _SIMX.run(rundir + '/script.txt', rundir + '/hist.jsonl')
        hist = []
        if rc == 0:
            for line in open(rundir + '/hist.jsonl', 'rb'):
                try:
                    hist.append(json.loads(line.decode('latin1')))
                except ValueError:
                    hist.append({'k': 'garbled'})
        files = {}
        for dp, dn, fn in os.walk(root):
            for f in fn:
                p = os.path.join(dp, f)
                rel = p[len(root):]
                if rel == '/data/in.txt':
                    continue
                with open(p, 'rb') as fh:
                    files[rel] = fh.read()
        if os.path.exists(rundir + '/mail.bin'):
            maildata = open(rundir + '/mail.bin', 'rb').read()
            for r in hist:
                if r.get('k') == 'mail':
                    r['data'] = maildata.decode('latin1')
        journal = open(rundir + '/journal.ics', 'rb').read().decode('latin1') if os.path.exists(rundir + '/journal.ics') else ''
        log = open(rundir + '/echsx.log', 'rb').read()[-6000:].decode('latin1') if os.path.exists(rundir + '/echsx.log') else ''
        return hist, files, journal, log.replace(rundir, '$R'), rc
    finally:
        if not keep:
            shutil.rmtree(rundir, ignore_errors=True)


def split_streams(b):
    lo = bytes(c for c in b if 97 <= c <= 122 or c == 10)
    up = bytes(c for c in b if 65 <= c <= 90)
    other = bytes(c for c in b if not (97 <= c <= 122 or c == 10 or 65 <= c <= 90))
    return lo, up, other


def stream_totals(case):
    """bytes the actor gets to write per stream (a closed stream swallows the rest)"""
    tot = {1: 0, 2: 0}
    closed = set()
    for st in case['steps']:
        if st[0] == 'w' and st[1] not in closed:
            tot[st[1]] += st[2]
        elif st[0] == 'c':
            closed.add(st[1])
    return tot


def err_pattern(n):
    """stderr pattern without its newlines (they are indistinguishable from stdout's)"""
    return bytes(c for c in pattern(2, n) if c != 10)


def judge(case, hist, files, journal, log):
    """returns list of (rule sig, detail)"""
    V = []
    sp = case['spec']
    so, se, mo, me = ROWS[case['row']]
    faults = case.get('faults', {})
    end = [r for r in hist if r.get('k') == 'end']
    if not end or end[0]['how'] != 'clean':
        return [('R-CRASHFREE executor-' + (end[0]['how'] if end else 'noend'),
                 'echsx ended by %s; log tail: %s' % (end[0] if end else None, log[-1500:]))]
    spawns = [r for r in hist if r.get('k') == 'jobspawn']
    norun = '-n' in case['flags']
    spawnfail = bool(faults.get('spawnfail'))
    if norun:
        if spawns or any(r.get('k') == 'jobspawnfail' for r in hist):
            V.append(('R-ONCEX ran-despite-no-run', 'the job was started although --no-run was given'))
        if 'STATUS:CANCELLED' not in journal or 'no-run' not in journal:
            V.append(('R-JOURNAL norun-not-reported', 'journal lacks the NOT RUN report: %r' % journal[:300]))
        return V
    if spawnfail:
        if spawns:
            V.append(('R-ONCEX spawn', 'job spawned although the spawn was made to fail'))
        return V
    if len(spawns) != 1:
        V.append(('R-ONCEX spawn-count', 'the job was started %d times' % len(spawns)))
        return V
    s = spawns[0]
    # how it was started
    shell = sp.get('shell') or '/bin/sh'
    if s.get('path') != shell or s.get('a0') != shell or s.get('a1') != '-c' or s.get('a2') != sp['cmd']:
        V.append(('R-RUNSPEC argv', 'job started as %r %r %r %r, expected %r -c %r'
                  % (s.get('path'), s.get('a0'), s.get('a1'), s.get('a2'), shell, sp['cmd'])))
    cwd = sp.get('location') or '/'
    if s.get('cwd') != cwd:
        V.append(('R-RUNSPEC cwd', 'job started in %r, expected %r' % (s.get('cwd'), cwd)))
    if sp.get('umask') is not None and s.get('umask') != sp['umask']:
        V.append(('R-RUNSPEC umask', 'job started with umask %o, expected %o' % (s.get('umask'), sp['umask'])))
    exp_in = sp.get('ifile') or '/dev/null'
    if s.get('in') != exp_in:
        V.append(('R-RUNSPEC stdin', 'job stdin is %r, expected %r' % (s.get('in'), exp_in)))
    su = [r['uid'] for r in hist if r.get('k') == 'setuid']
    sg = [r['gid'] for r in hist if r.get('k') == 'setgid']
    if su != [sp['setuid']] or sg != [sp['setgid']]:
        V.append(('R-RUNSPEC identity', 'setuid %s setgid %s, expected %s/%s' % (su, sg, sp['setuid'], sp['setgid'])))
    # what the job wrote
    tot = stream_totals(case)
    O = pattern(1, tot[1])
    E = pattern(2, tot[2])
    openfail = bool(faults.get('openfail'))

    def check_file(name, want_o, want_e, label):
        b = files.get(name)
        if b is None:
            if want_o or want_e:
                V.append(('R-ROUTE %s-missing' % label, 'row %d: %s does not exist' % (case['row'] + 1, name)))
            return
        if want_o and want_e:
            # both streams into one file: order preserving interleaving
            if len(b) != len(O) + len(E):
                V.append(('R-ROUTE %s-length' % label, 'row %d: %s has %d bytes, stdout+stderr wrote %d+%d'
                          % (case['row'] + 1, name, len(b), len(O), len(E))))
                return
            lo, up, other = split_streams(b)
            if other or up != err_pattern(len(E)) or len(lo) != len(O) + (len(E) - len(up)) or \
                    bytes(c for c in lo if c != 10) != bytes(c for c in O if c != 10):
                V.append(('R-ROUTE %s-interleave' % label, 'row %d: %s is not an order-preserving merge of the two streams'
                          % (case['row'] + 1, name)))
        else:
            want = O if want_o else E
            if b != want:
                i = next((k for k in range(min(len(b), len(want))) if b[k] != want[k]), min(len(b), len(want)))
                V.append(('R-ROUTE %s-content' % label, 'row %d: %s has %d bytes, expected %d; first difference at %d'
                          % (case['row'] + 1, name, len(b), len(want), i)))
    if sp.get('ofile') and not openfail:
        check_file(sp['ofile'], True, se == 'same', 'ofile')
    if sp.get('efile') and se != 'same':
        check_file(sp['efile'], False, True, 'efile')
    # nothing left behind
    left = [f for f in files if f.startswith('/tmp/')]
    if left:
        V.append(('R-ROUTE tempfile-left', 'temporary files left behind: %s' % left))
    # mail
    mails = [r for r in hist if r.get('k') == 'mail']
    want_mail = bool(sp.get('organizer')) and bool(sp.get('attendees')) and \
        bool(mo or me or sp.get('mailrun')) and not faults.get('mailfail')
    if want_mail and not mails:
        V.append(('R-MAIL missing', 'row %d: no mail was handed to sendmail' % (case['row'] + 1)))
    elif not want_mail and mails and not faults.get('mailfail'):
        V.append(('R-MAIL unwanted', 'row %d: mail sent although nothing prescribes it (org %r att %r flags %s%s%s)'
                  % (case['row'] + 1, sp.get('organizer'), sp.get('attendees'), mo, me, sp.get('mailrun'))))
    elif mails:
        data = mails[0]['data'].encode('latin1')
        i = data.find(b'\n\n')
        body = data[i + 2:] if i >= 0 else b''
        hdr = data[:i].decode('latin1') if i >= 0 else ''
        if openfail and so and (mo or me):
            pass        # where the mail file is the unopenable output file nothing sensible is prescribed
        elif mo and me:
            lo, up, other = split_streams(body)
            if len(body) != len(O) + len(E) or other or up != err_pattern(len(E)) or \
                    bytes(c for c in lo if c != 10) != bytes(c for c in O if c != 10):
                V.append(('R-MAIL body-both', 'row %d: mail body has %d bytes, expected an interleaving of %d+%d'
                          % (case['row'] + 1, len(body), len(O), len(E))))
        elif mo or me:
            want = O if mo else E
            if body != want:
                V.append(('R-MAIL body', 'row %d: mail body has %d bytes, expected the %d bytes of %s'
                          % (case['row'] + 1, len(body), len(want), 'stdout' if mo else 'stderr')))
        elif body:
            V.append(('R-MAIL body-unwanted', 'row %d: mail body has %d bytes though neither MAIL-OUT nor MAIL-ERR is set'
                      % (case['row'] + 1, len(body))))
        if 'To: ' + ', '.join(sp.get('attendees', [])) not in hdr or 'From: ' + sp.get('organizer', '') not in hdr:
            V.append(('R-MAIL headers', 'mail headers %r do not name organizer/attendees' % hdr[:200]))
    # journal
    last = case['steps'][-1]
    jx = [r for r in hist if r.get('k') == 'jobexit']
    props = dict((k, v) for k, p, v in ical.parse_props(journal))
    if last[0] == 'x':
        if props.get('X-EXIT-STATUS') != str(last[1] & 0xff) or 'X-SIGNAL' in props:
            V.append(('R-JOURNAL exit-status', 'job exited with %d, journal says X-EXIT-STATUS:%s X-SIGNAL:%s'
                      % (last[1], props.get('X-EXIT-STATUS'), props.get('X-SIGNAL'))))
    else:
        if props.get('X-SIGNAL') != str(last[1]):
            V.append(('R-JOURNAL signal', 'job died of signal %d, journal says X-SIGNAL:%s X-EXIT-STATUS:%s'
                      % (last[1], props.get('X-SIGNAL'), props.get('X-EXIT-STATUS'))))
    if props.get('UID') != sp['uid'] or props.get('SUMMARY') != sp['cmd']:
        V.append(('R-JOURNAL identity', 'journal UID/SUMMARY %r/%r' % (props.get('UID'), props.get('SUMMARY'))))
    if jx:
        t_sta, t_end = s['t'], jx[0]['t']
        if props.get('DTSTART') != ical.ts2ical(int(t_sta)):
            V.append(('R-JOURNAL start-time', 'journal DTSTART %s, job started at %s' % (props.get('DTSTART'), ical.ts2ical(int(t_sta)))))
        comp = props.get('COMPLETED')
        if comp not in (ical.ts2ical(int(t_end)), ical.ts2ical(int(t_end) + 1)):
            V.append(('R-JOURNAL end-time', 'journal COMPLETED %s, job ended at %s' % (comp, ical.ts2ical(int(t_end)))))
        # the elapsed time reported is the job's: the executor reads the clock right after the spawn and right
        # after the exit was reported (a few loop iterations of 0.1 ms each after the exit itself)
        rt = props.get('X-REAL-TIME')
        if rt is not None:
            try:
                real = float(rt.rstrip('s'))
            except ValueError:
                real = None
            if real is None or not rt.endswith('s') or abs(real - (t_end - t_sta)) > 0.5:
                V.append(('R-JOURNAL real-time', 'journal X-REAL-TIME %s, the job ran from %.4f to %.4f (%.4f s)'
                          % (rt, t_sta, t_end, t_end - t_sta)))
        elif '-v' in case['flags']:
            V.append(('R-JOURNAL real-time-missing', 'journal of a -v run lacks X-REAL-TIME'))
    return V


def run_seed(seed, tier, opts=None):
    case = gen_case(seed, tier, opts)
    hist, files, journal, log, rc = execute(case)
    if rc != 0:
        return {'seed': seed, 'machinery': 'simx rc=%d' % rc, 'viol': [], 'stats': {}, 'probes': {}, 'hash': '', 'simsec': 0}
    v = judge(case, hist, files, journal, log)
    viol = [{'rule': s.split(' ', 1)[0], 'sig': s.split(' ', 1)[1], 'detail': d, 'prop': 'C13', 'case': case} for s, d in v]
    tot = stream_totals(case)
    st = {'row_%02d' % (case['row'] + 1): 1, 'stdout_bytes': tot[1], 'stderr_bytes': tot[2]}
    for k in case.get('faults', {}):
        if case['faults'][k]:
            st['fault_' + k] = 1
    probes = {}
    if tot[1] > 65536 or tot[2] > 65536:
        probes['beyond_pipe_capacity'] = 1
    if case['steps'][-1][0] == 'k':
        probes['fatal_signal'] = 1
    if '-n' in case['flags']:
        probes['no_run'] = 1
    ts = [r['t'] for r in hist if 't' in r and r['t'] > 0]
    h = hashlib.sha1(json.dumps(hist, sort_keys=True).encode('latin1', 'replace')).hexdigest()
    if any(r.get('k') == 'alarmfire' and r.get('during') == 'mail delivery' for r in hist):
        probes['deadline_expired_during_mail_delivery'] = 1
    if case.get('limit_line'):
        probes['job_with_time_limit'] = 1
    return {'seed': seed, 'viol': viol, 'stats': st, 'probes': probes, 'hash': h,
            'simsec': (max(ts) - min(ts)) if ts else 0,
            'plan_hash': hashlib.sha1(json.dumps(case, sort_keys=True).encode()).hexdigest()[:16],
            'nops': len(case['steps']),
            'sample': {k: case[k] for k in ('row', 'spec', 'flags', 'steps', 'faults', 'rfrag')}}


def replay(doc):
    case = doc['case']
    hist, files, journal, log, rc = execute(case)
    if rc != 0:
        return [{'rule': 'R-MACHINERY', 'sig': 'simx', 'detail': 'rc %d' % rc}]
    judge_fn = judge14 if doc.get('kind') == 'c14' else judge
    return [{'rule': s.split(' ', 1)[0], 'sig': s.split(' ', 1)[1], 'detail': d} for s, d in judge_fn(case, hist, files, journal, log)]


def minimise(doc, want):
    import copy
    case = copy.deepcopy(doc['case'])

    def fails(c):
        return any(x['rule'] + ' ' + x['sig'] == want for x in replay(dict(doc, case=c)))
    # fewer actor steps
    i = 0
    while i < len(case['steps']) - 1:
        c = copy.deepcopy(case)
        del c['steps'][i]
        if fails(c):
            case = c
        else:
            i += 1
    # smaller writes
    for i, st in enumerate(case['steps']):
        if st[0] == 'w':
            for n in (1, 17, 300, 4096, 65536):
                if n < st[2]:
                    c = copy.deepcopy(case)
                    c['steps'][i][2] = n
                    if fails(c):
                        case = c
                        break
    # fewer faults
    for k in list(case.get('faults', {})):
        c = copy.deepcopy(case)
        del c['faults'][k]
        if fails(c):
            case = c
    c = copy.deepcopy(case)
    c['rfrag'] = None
    if fails(c):
        case = c
    return dict(doc, case=case)


def judge14(case, hist, files, journal, log):
    from . import c14
    return c14.judge(case, hist, files, journal, log)
