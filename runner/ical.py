"""Task specs -> iCalendar text and, for the arithmetic family, the expected
occurrence times computed WITHOUT any echse code (timegm arithmetic only)."""
import calendar
import time

UNIT = {'SECONDLY': 1, 'MINUTELY': 60, 'HOURLY': 3600, 'DAILY': 86400}


def ts2ical(ts, z=True):
    t = time.gmtime(ts)
    return '%04d%02d%02dT%02d%02d%02d%s' % (
        t.tm_year, t.tm_mon, t.tm_mday, t.tm_hour, t.tm_min, t.tm_sec,
        'Z' if z else '')


def ts2local(ts, tzid):
    """wall-clock stamp of TS in zone TZID (Python's zoneinfo, not echse's)"""
    import datetime
    import zoneinfo
    d = datetime.datetime.fromtimestamp(ts, zoneinfo.ZoneInfo(tzid))
    return '%04d%02d%02dT%02d%02d%02d' % (d.year, d.month, d.day, d.hour, d.minute, d.second)


def ts2date(ts):
    t = time.gmtime(ts)
    return '%04d%02d%02d' % (t.tm_year, t.tm_mon, t.tm_mday)


def ymdhms2ts(y, m, d, H=0, M=0, S=0):
    return calendar.timegm((y, m, d, H, M, S, 0, 0, 0))


def dur2iso(s):
    """seconds -> an ISO 8601 duration string (canonical form)"""
    if s == 0:
        return 'PT0S'
    out = 'P'
    d, s = divmod(s, 86400)
    if d:
        out += '%dD' % d
    if s:
        out += 'T'
        h, s = divmod(s, 3600)
        m, s = divmod(s, 60)
        if h:
            out += '%dH' % h
        if m:
            out += '%dM' % m
        if s:
            out += '%dS' % s
    return out


def arith_occurrences(spec, lo=None, limit=200000):
    """Occurrence times (UTC seconds, sorted, unique) of an arith-family spec.
    DTSTART is always an occurrence of each rule (the generator keeps it
    congruent), RDATEs add instants.  Occurrences before LO are left out
    (they lie before anything the plan does)."""
    occ = set()
    start = spec['start']
    for r in spec.get('rules', []):
        step = UNIT[r['freq']] * r.get('interval', 1)
        if 'count' in r:
            n = r['count']
        elif 'until' in r:
            n = (r['until'] - start) // step + 1 if r['until'] >= start else 0
        else:
            n = spec.get('horizon_n', 1000)
        i0 = 0
        if lo is not None and lo > start:
            i0 = (lo - start) // step
        n = min(n, i0 + limit)
        for i in range(i0, n):
            occ.add(start + i * step)
    for d in spec.get('rdates', []):
        occ.add(d)
    if not spec.get('rules') and not spec.get('rdates'):
        occ.add(start)
    if lo is not None:
        return sorted(x for x in occ if x >= lo)
    return sorted(occ)


def has_any_occurrence(spec):
    """does an arith spec describe at least one instant at all"""
    if spec.get('start') is None:
        return False
    if spec.get('rdates'):
        return True
    rules = spec.get('rules', [])
    if not rules:
        return True
    for r in rules:
        if 'count' in r:
            if r['count'] >= 1:
                return True
        elif 'until' in r:
            if r['until'] >= spec['start']:
                return True
        else:
            return True
    return False


def fold(line, width=70, crlf=False, ws=' '):
    """fold a content line RFC 5545 style"""
    nl = '\r\n' if crlf else '\n'
    if len(line) <= width:
        return line + nl
    out = line[:width] + nl
    line = line[width:]
    while line:
        out += ws + line[:width - 1] + nl
        line = line[width - 1:]
    return out


def event_text(spec, crlf=False, foldw=0):
    """print a VEVENT from a spec; field order as given in spec['order'] if any"""
    nl = '\r\n' if crlf else '\n'
    lines = []
    z = spec.get('zulu', True)
    if spec.get('uid') is not None:
        lines.append('UID:' + spec['uid'])
    if spec.get('cmd') is not None:
        lines.append('SUMMARY:' + spec['cmd'])
    if spec.get('start') is not None:
        if spec.get('allday'):
            lines.append('DTSTART;VALUE=DATE:' + ts2date(spec['start']))
        elif spec.get('tzid'):
            lines.append('DTSTART;TZID=%s:%s' % (spec['tzid'], ts2local(spec['start'], spec['tzid'])))
        else:
            lines.append('DTSTART:' + ts2ical(spec['start'], z))
    if spec.get('dtend') is not None:
        if spec.get('allday'):
            lines.append('DTEND;VALUE=DATE:' + ts2date(spec['dtend']))
        elif spec.get('tzid'):
            lines.append('DTEND;TZID=%s:%s' % (spec['tzid'], ts2local(spec['dtend'], spec['tzid'])))
        else:
            lines.append('DTEND:' + ts2ical(spec['dtend'], z))
    if spec.get('duration') is not None:
        lines.append('DURATION:' + spec['duration'])
    for r in spec.get('rules', []):
        s = 'RRULE:FREQ=' + r['freq']
        if r.get('interval', 1) != 1 or r.get('explicit_interval'):
            s += ';INTERVAL=%d' % r.get('interval', 1)
        if 'count' in r:
            s += ';COUNT=%d' % r['count']
        if 'until' in r:
            s += ';UNTIL=' + ts2ical(r['until'], z)
        if r.get('extra'):
            s += ';' + r['extra']
        lines.append(s)
    for raw in spec.get('rawrules', []):
        lines.append(raw)
    if spec.get('rdates'):
        # (an event may carry several RDATE lines: 'rdate_split' = how many of the dates go on the first)
        k = spec.get('rdate_split') or len(spec['rdates'])
        for part in (spec['rdates'][:k], spec['rdates'][k:]):
            if not part:
                continue
            if spec.get('allday'):
                lines.append('RDATE;VALUE=DATE:' + ','.join(ts2date(d) for d in part))
            else:
                lines.append('RDATE:' + ','.join(ts2ical(d, z) for d in part))
    if spec.get('exdates'):
        lines.append('EXDATE:' + ','.join(ts2ical(d, z) for d in spec['exdates']))
    for k, fld in (('location', 'LOCATION'), ('shell', 'X-ECHS-SHELL'),
                   ('ifile', 'X-ECHS-IFILE'), ('ofile', 'X-ECHS-OFILE'),
                   ('efile', 'X-ECHS-EFILE'), ('umask', 'X-ECHS-UMASK'),
                   ('mailrun', 'X-ECHS-MAIL-RUN'), ('mailout', 'X-ECHS-MAIL-OUT'),
                   ('mailerr', 'X-ECHS-MAIL-ERR'), ('maxsimul', 'X-ECHS-MAX-SIMUL'),
                   ('organizer', 'ORGANIZER'), ('owner', 'X-ECHS-OWNER'),
                   ('setuid', 'X-ECHS-SETUID'), ('setgid', 'X-ECHS-SETGID'),
                   ('desc', 'DESCRIPTION')):
        v = spec.get(k)
        if v is None:
            continue
        lines.append('%s:%s' % (fld, v))
    for a in spec.get('attendees', []):
        lines.append('ATTENDEE:' + a)
    for x in spec.get('extra_lines', []):
        lines.append(x)
    order = spec.get('order')
    if order:
        # a permutation of the line indices (stable if out of range)
        lines = [lines[i] for i in order if i < len(lines)] + \
            [l for i, l in enumerate(lines) if i not in order]
    comp = spec.get('comp', 'VEVENT')
    out = 'BEGIN:%s%s' % (comp, nl)
    for l in lines:
        if foldw:
            out += fold(l, foldw, crlf, spec.get('foldws', ' '))
        else:
            out += l + nl
    out += 'END:%s%s' % (comp, nl)
    return out


def calendar_text(events, cal=None, crlf=False, method=None):
    nl = '\r\n' if crlf else '\n'
    out = 'BEGIN:VCALENDAR' + nl + 'VERSION:2.0' + nl
    if method:
        out += 'METHOD:' + method + nl
    for k, fld in (('maxsimul', 'X-ECHS-MAX-SIMUL'), ('owner', 'X-ECHS-OWNER'),
                   ('umask', 'X-ECHS-UMASK'), ('setuid', 'X-ECHS-SETUID'),
                   ('setgid', 'X-ECHS-SETGID')):
        v = (cal or {}).get(k)
        if v is not None:
            out += '%s:%s%s' % (fld, v, nl)
    for e in events:
        out += e
    out += 'END:VCALENDAR' + nl
    return out


def parse_props(text):
    """independent KEY[;params]:value splitter for VTODO/VEVENT blocks.
    returns list of (key, params, value); unfolds continuation lines."""
    out = []
    cur = None
    for raw in text.replace('\r\n', '\n').split('\n'):
        if raw[:1] in (' ', '\t') and cur is not None:
            cur += raw[1:]
            continue
        if cur is not None:
            out.append(cur)
        cur = raw
    if cur:
        out.append(cur)
    res = []
    for l in out:
        if not l:
            continue
        i = l.find(':')
        if i < 0:
            res.append((l, '', None))
            continue
        key = l[:i]
        val = l[i + 1:]
        params = ''
        j = key.find(';')
        if j >= 0:
            key, params = key[:j], key[j + 1:]
        res.append((key, params, val))
    return res


def split_components(text, comp):
    """list of property lists of each BEGIN:comp..END:comp block (COMP may be
    a tuple of component names; document order is kept)"""
    props = parse_props(text)
    res = []
    cur = None
    comps = comp if isinstance(comp, tuple) else (comp,)
    for k, p, v in props:
        if k == 'BEGIN' and v in comps:
            cur = []
        elif k == 'END' and v in comps:
            if cur is not None:
                res.append(cur)
            cur = None
        elif cur is not None:
            cur.append((k, p, v))
    return res
