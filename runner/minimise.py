"""Plan minimisation: ddmin over operations, then greedy simplification
passes, keeping a candidate only if the SAME rule+signature still fails."""
import copy


def _flat_ops(plan):
    out = []
    for ei, ep in enumerate(plan['epochs']):
        for oi, op in enumerate(ep['ops']):
            out.append((ei, oi))
    return out


def _without(plan, drop):
    p = copy.deepcopy(plan)
    drop = set(drop)
    for ei, ep in enumerate(p['epochs']):
        ep['ops'] = [op for oi, op in enumerate(ep['ops']) if (ei, oi) not in drop]
    return p


def _essential(plan, key):
    """the terminating op of each epoch must stay"""
    ei, oi = key
    ops = plan['epochs'][ei]['ops']
    return oi == len(ops) - 1


def ddmin_ops(plan, pred, budget):
    keys = [k for k in _flat_ops(plan) if not _essential(plan, k)]
    n = 2
    while len(keys) >= 1 and budget[0] > 0:
        chunk = max(1, len(keys) // n)
        removed = False
        for i in range(0, len(keys), chunk):
            drop = keys[i:i + chunk]
            cand = _without(plan, drop)
            budget[0] -= 1
            if pred(cand):
                plan = cand
                keys = [k for k in _flat_ops(plan) if not _essential(plan, k)]
                n = max(n - 1, 2)
                removed = True
                break
            if budget[0] <= 0:
                break
        if not removed:
            if chunk == 1:
                break
            n = min(len(keys), n * 2)
    return plan


def _try(plan, pred, budget, mut):
    if budget[0] <= 0:
        return plan
    cand = copy.deepcopy(plan)
    if mut(cand) is False:
        return plan
    if cand == plan:
        return plan
    budget[0] -= 1
    if pred(cand):
        return cand
    return plan


def simplify(plan, pred, budget):
    # drop trailing epochs
    while len(plan['epochs']) > 1 and budget[0] > 0:
        def mut(p):
            p['epochs'].pop()
            last = p['epochs'][-1]['ops']
            if not last or last[-1]['op'] != 'crash':
                t = (last[-1]['t'] if last else p['epochs'][-1]['start']) + 1
                last.append({'t': t, 'op': 'crash'})
        np = _try(plan, pred, budget, mut)
        if np is plan:
            break
        plan = np
    # no lateness
    def mut_late(p):
        p['cfg']['late'] = [0.0, 1.0, 0.0, 0.002]
    plan = _try(plan, pred, budget, mut_late)

    def mut_rf(p):
        p['cfg'].pop('readfrag', None)
        p['cfg']['dirperm'] = 0
    plan = _try(plan, pred, budget, mut_rf)
    # default lifetimes
    for uid in sorted(plan.get('life', {})):
        if uid == '*':
            continue

        def mut_life(p, uid=uid):
            p['life'].pop(uid, None)
        plan = _try(plan, pred, budget, mut_life)
    for uid in sorted(plan.get('life', {})):
        if len(plan['life'][uid]) > 1:
            def mut_life1(p, uid=uid):
                p['life'][uid] = p['life'][uid][:1]
            plan = _try(plan, pred, budget, mut_life1)
        if plan['life'][uid][0][2]:
            def mut_life2(p, uid=uid):
                p['life'][uid][0][2] = 0.0
            plan = _try(plan, pred, budget, mut_life2)
    # per add op: fewer tasks, no frag, echsq->raw not tried (changes meaning)
    for ei, ep in enumerate(plan['epochs']):
        for oi, op in enumerate(ep['ops']):
            if op['op'] == 'add' and len(op['tasks']) > 1:
                for tid in list(op['tasks']):
                    def mut_t(p, ei=ei, oi=oi, tid=tid):
                        o = p['epochs'][ei]['ops'][oi]
                        if tid not in o['tasks'] or len(o['tasks']) < 2:
                            return False
                        o['tasks'].remove(tid)
                    plan = _try(plan, pred, budget, mut_t)
            for key in ('frag', 'sends', 'cal', 'crlf', 'foldw'):
                if plan['epochs'][ei]['ops'][oi].get(key):
                    def mut_k(p, ei=ei, oi=oi, key=key):
                        p['epochs'][ei]['ops'][oi].pop(key, None)
                    plan = _try(plan, pred, budget, mut_k)
    # simplify task specs
    used = set()
    for ep in plan['epochs']:
        for op in ep['ops']:
            if op['op'] == 'add':
                used.update(op['tasks'])
    from . import gen as _gen
    for t in plan['tasks']:
        if t['id'] not in used or t.get('family') != 'arith':
            continue
        tid = t['id']
        for what in ('rdates', 'rule2', 'count', 'fields', 'maxsimul'):
            def mut_s(p, tid=tid, what=what):
                tt = [x for x in p['tasks'] if x['id'] == tid][0]
                sp = tt['spec']
                if what == 'rdates':
                    if not sp.get('rdates') or not sp.get('rules'):
                        return False
                    sp.pop('rdates')
                elif what == 'rule2':
                    if len(sp.get('rules', [])) < 2:
                        return False
                    sp['rules'] = sp['rules'][:1]
                elif what == 'count':
                    r = sp.get('rules', [{}])[0]
                    if r.get('count', 0) < 4:
                        return False
                    r['count'] = max(2, r['count'] // 2)
                elif what == 'maxsimul':
                    if sp.get('maxsimul') is None:
                        return False
                    sp.pop('maxsimul')
                else:
                    ks = [k for k in ('location', 'shell', 'ifile', 'ofile', 'efile', 'umask',
                                      'mailrun', 'mailout', 'mailerr', 'organizer', 'attendees',
                                      'desc', 'duration', 'dtend') if sp.get(k) is not None]
                    if not ks:
                        return False
                    for k in ks:
                        sp.pop(k)
                    tt.pop('dur', None)
                from . import ical
                tt['occ'] = ical.arith_occurrences(sp, lo=tt.get('occ_lo'))
            for _ in range(4 if what == 'count' else 1):
                np = _try(plan, pred, budget, mut_s)
                if np is plan:
                    break
                plan = np
    # drop unused tasks (cosmetic, keeps ids)
    used = set()
    for ep in plan['epochs']:
        for op in ep['ops']:
            if op['op'] == 'add':
                used.update(op['tasks'])
    cand = copy.deepcopy(plan)
    cand['tasks'] = [t for t in cand['tasks'] if t['id'] in used]
    cand['life'] = {k: v for k, v in cand.get('life', {}).items()
                    if k == '*' or any(t['spec'].get('uid') == k for t in cand['tasks'])}
    if cand != plan and budget[0] > 0:
        budget[0] -= 1
        if pred(cand):
            plan = cand
    return plan


def minimise(plan, pred, max_runs=250):
    budget = [max_runs]
    plan = ddmin_ops(plan, pred, budget)
    plan = simplify(plan, pred, budget)
    plan = ddmin_ops(plan, pred, budget)
    return plan, max_runs - budget[0]
