"""C14: a job outliving its DTEND/DURATION/DUE limit is killed by the deadline.

Chained run: user text -> real echsq bytes -> simd daemon -> the execution
request captured at the occurrence -> simx (real echsx) with that very
request on stdin, the virtual clock started at the spawn time, and a job
whose lifetime lies just below, just above or far beyond the limit."""
import hashlib
import json
import re

from . import c13, gen, ical, model, sim

FORMS = ['S', 'MS', 'HMS', 'D', 'DT', 'W', 'plus', 'dtend']


def limit_text(g, L, form):
    """an ISO 8601 spelling of L seconds (L chosen to be expressible)"""
    if form == 'S':
        return 'PT%dS' % L
    if form == 'MS':
        return 'PT%dM%dS' % (L // 60, L % 60)
    if form == 'HMS':
        return 'PT%dH%dM%dS' % (L // 3600, L % 3600 // 60, L % 60)
    if form == 'D':
        return 'P%dD' % (L // 86400)
    if form == 'DT':
        return 'P%dDT%dH' % (L // 86400, L % 86400 // 3600)
    if form == 'W':
        return 'P%dW' % (L // 604800)
    if form == 'plus':
        return '+PT%dS' % L
    return None


def gen_case(seed, tier, opts=None):
    g = gen.G(seed)
    mode = g.wpick([('chain', 6), ('due', 2), ('direct', 1)])
    t0 = gen.T_BASE + g.rint(0, 86400 * 365 * 5)
    form = g.pick(FORMS)
    if form == 'D':
        L = 86400 * g.rint(1, 3)
    elif form == 'DT':
        L = 86400 * g.rint(0, 2) + 3600 * g.rint(1, 23)
    elif form == 'W':
        L = 604800 * g.rint(1, 2)
    else:
        L = g.pick([1, 2, 5, 59, 60, 61, 90, 600, 3600, 3661, 86399, 86400, 100000])
    if g.chance(0.08):
        # "all limits from 1 s upwards": weeks and months (32-bit millisecond counters wrap at 24.8 and 49.7 days)
        L = 86400 * g.pick([21, 25, 30, 50, 60, 100, 400])
        if form == 'DT':
            L += 3600 * g.rint(1, 23)
        elif form == 'W':
            L = 604800 * g.pick([3, 4, 8, 60])
    lifek = g.wpick([('short', 3), ('justunder', 2), ('justover', 3), ('long', 3)])
    life = {'short': max(0.0, L * g.uni(0.0, 0.5)), 'justunder': max(0.0, L - 2.0),
            'justover': L + 2.0, 'long': L * g.uni(1.5, 4.0) + 5}[lifek]
    stall = g.pick([0.0, 0.0, 0.3, 1.0])
    # the executor held up between arming its deadline and spawning the job (slow open/mkstemp/chdir):
    # a deadline that expires meanwhile finds no job yet
    prestall = g.pick([0.0, 0.0, 0.0, 0.4, 1.5, 8.0]) if L <= 10 or g.chance(0.3) else 0.0
    late = g.pick([[0.0, 1.0, 0.0, 0.01], [0.5, 20.0, 0.0, 0.5]])
    case = {'v': 1, 'engine': 'chain', 'property': 'C14', 'seed': seed, 'mode': mode, 'L': L, 'form': form,
            'life': round(life, 3), 'stall': stall, 'prestall': prestall, 'exit': g.pick([0, 1, 7]), 't0': t0, 'late': late,
            'exitlag': g.pick([0, 1, 2])}
    if g.chance(0.15) and (form == 'dtend' or mode == 'due'):
        # DTSTART/DTEND (or DUE) as local times of a zone with daylight saving; half of them with the span lying
        # across a switch (last Sunday of March / October, 01:00 UTC)
        case['tzid'] = g.pick(['Europe/Berlin', 'Europe/London'])
        import time as _time
        tm = _time.gmtime(t0)
        if tm.tm_mon in (3, 10) and tm.tm_mday >= 25 and tm.tm_wday == 6:
            # a switch day: move on by two days
            case['t0'] = t0 = t0 + 2 * 86400
        if g.chance(0.5) and mode != 'due':
            import calendar as _cal
            y = g.rint(2027, 2036)
            # (in October the wall-clock hour before the switch occurs twice; a stamp in it is ambiguous and
            # iCalendar leaves open which one is meant: both ends of the span must lie outside those two hours)
            mo = g.pick([3, 10]) if L > 7300 else 3
            last_sun = max(d for d in range(25, 32) if _cal.weekday(y, mo, d) == 6)
            sw = _cal.timegm((y, mo, last_sun, 1, 0, 0, 0, 0, 0))
            # the run starts at t0 + 7 (chain) resp. t0 (direct)
            if mo == 3:
                case['t0'] = sw - 7 - g.rint(1, max(1, min(L - 1, 3000))) if L > 1 else sw - 8
            else:
                case['t0'] = sw - 3600 - 7 - g.rint(1, min(L - 7250, 3000))
            case['across_dst'] = 1
    if mode == 'due':
        case['due_rel'] = g.pick([-100, -1, 0, 1, 2, 30, 3600])      # DUE relative to the executor's start
        case['life'] = round(g.pick([0.5, max(0.0, case['due_rel'] - 2.0), case['due_rel'] + 2.0, case['due_rel'] * 3 + 5]), 3)
    return case


def user_plan(case):
    """the daemon half: one task with the limit, its first occurrence soon"""
    t0 = case['t0']
    start = t0 + 7
    sp = {'uid': 'd1@sim', 'cmd': 'long job', 'start': start,
          'rules': [{'freq': 'MINUTELY', 'interval': 30, 'count': 2}],
          'organizer': 'ops@example.com', 'attendees': ['a@x.org'], 'mailrun': '1'}
    if case.get('tzid'):
        sp['tzid'] = case['tzid']
    if case['form'] == 'dtend':
        sp['dtend'] = start + case['L']
    else:
        sp['duration'] = limit_text(None, case['L'], case['form'])
    task = {'id': 0, 'family': 'arith', 'spec': sp, 'occ': ical.arith_occurrences(sp), 'dur': case['L']}
    ops = [{'t': t0 + 1.0, 'op': 'add', 'peer': 1000, 'tasks': [0], 'linger': 0.3, 'via': 'echsq'},
           {'t': t0 + 40.0, 'op': 'crash'}]
    return {'v': 1, 'engine': 'simd', 'property': 'C14', 'seed': case['seed'],
            'cfg': {'start': t0, 'late': case['late'], 'daemon_uid': 0, 'dirperm': 0},
            'users': [{'uid': 1000, 'gid': 1000, 'name': 'u1000'}], 'tasks': [task],
            'life': {'*': [[1.0, 0, 0.0]]}, 'epochs': [{'start': t0, 'ops': ops}]}


def run_chain(case):
    """returns (violations, info)"""
    V = []
    info = {}
    if case['mode'] == 'chain':
        plan = user_plan(case)
        hist, lw, logs, rc = sim.execute(plan)
        if rc != 0 or lw.vq_errors:
            return [('R-MACHINERY simd', 'rc %s vq %r' % (rc, lw.vq_errors[:1]))], info
        spawns = [r for r in hist if r.get('k') == 'spawn']
        if not spawns:
            return [('R-DEADLINE no-execution-request', 'the daemon never started the task (history end: %s)'
                     % [r for r in hist if r.get('k') == 'end'])], info
        s = spawns[0]
        vtodo = s['vtodo']
        info['vtodo'] = vtodo
        info['spawn_t'] = s['t']
        info['wire'] = lw.conns[(0, 0)]['wire'].decode('latin1')
        # (i) the request carries the limit
        props = ical.parse_props(vtodo)
        dl = [v for k, p, v in props if k == 'DURATION']
        got = model.Model.parse_dur(dl[0]) if dl else None
        if got != case['L']:
            V.append(('R-DEADLINE handed-over-limit',
                      'limit of %d s written as %s reaches the executor request as DURATION:%s'
                      % (case['L'], case['form'], dl[0] if dl else None)))
        flags = [a for a in s['argv'].split()[1:] if a in ('-v', '-n')]
        xcase = executor_case(case, vtodo, s['t'], flags or ['-v'])
    elif case['mode'] == 'direct':
        # an execution request as a correct daemon would write it
        vt = direct_vtodo(case, 'DURATION:PT%dS' % case['L'])
        xcase = executor_case(case, vt, case['t0'], ['-v'])
        info['vtodo'] = vt
    else:
        due = case['t0'] + case['due_rel']
        if case.get('tzid'):
            vt = direct_vtodo(case, 'DUE;TZID=%s:%s' % (case['tzid'], ical.ts2local(due, case['tzid'])))
        else:
            vt = direct_vtodo(case, 'DUE:' + ical.ts2ical(due))
        xcase = executor_case(case, vt, case['t0'], ['-v'])
        info['vtodo'] = vt
    hist, files, journal, log, rc = c13.execute(xcase)
    info['hh'] = hashlib.sha1((json.dumps(hist, sort_keys=True) + info.get('vtodo', '')).encode('latin1', 'replace')).hexdigest()
    if rc != 0:
        return [('R-MACHINERY simx', 'rc %d' % rc)], info
    info['xcase'] = xcase
    V += judge(dict(xcase, chain=case), hist, files, journal, log)
    return V, info


def direct_vtodo(case, limit_line):
    return ('BEGIN:VCALENDAR\nVERSION:2.0\nBEGIN:VTODO\nUID:d1@sim\nSUMMARY:long job\n'
            'X-ECHS-SETUID:1000\nX-ECHS-SETGID:1000\nX-ECHS-SHELL:/bin/sh\nLOCATION:/work\n%s\n'
            'X-ECHS-UMASK:022\nX-ECHS-MAIL-RUN:1\nX-ECHS-MAIL-OUT:0\nX-ECHS-MAIL-ERR:0\n'
            'ORGANIZER:ops@example.com\nATTENDEE:a@x.org\nEND:VTODO\nEND:VCALENDAR\n' % limit_line)


def executor_case(case, vtodo, start, flags):
    steps = [['s', case['life']], ['x', case['exit']]]
    return {'v': 1, 'engine': 'simx', 'property': 'C14', 'seed': case['seed'], 'start': start, 'row': 19,
            'spec': {'uid': 'd1@sim', 'cmd': 'long job', 'setuid': 1000, 'setgid': 1000},
            'flags': flags, 'steps': steps, 'faults': dict({'exitlag': case['exitlag'], 'spawnstall': case['stall']},
                           **({'prepstall': case['prestall']} if case.get('prestall') else {})),
            'rfrag': None, 'vtodo': vtodo.replace('$R', '')}


def judge(xcase, hist, files, journal, log):
    V = []
    case = xcase['chain']
    end = [r for r in hist if r.get('k') == 'end']
    if not end or end[0]['how'] != 'clean':
        return [('R-CRASHFREE executor-' + (end[0]['how'] if end else 'noend'), 'echsx ended by %s; %s' % (end, log[-800:]))]
    spawns = [r for r in hist if r.get('k') == 'jobspawn']
    props = dict((k, v) for k, p, v in ical.parse_props(journal))
    kills = [r for r in hist if r.get('k') == 'kill']
    jx = [r for r in hist if r.get('k') == 'jobexit']
    start = xcase['start']
    if case['mode'] == 'due':
        L = case['due_rel']
        if L <= 0:
            # (iv) overdue: not started, reported
            if spawns:
                V.append(('R-DEADLINE overdue-started', 'DUE lies %d s in the past but the job was started' % -L))
            elif 'STATUS:CANCELLED' not in journal:
                V.append(('R-DEADLINE overdue-unreported', 'overdue request not reported in the journal: %r' % journal[:200]))
            return V
    else:
        L = case['L']
    if not spawns:
        V.append(('R-DEADLINE not-started', 'the job was not started at all; log: %s' % log[-300:]))
        return V
    t_spawn = spawns[0]['t']
    life = case['life']
    stall = case['stall']
    pre = case.get('prestall', 0.0)
    for k in kills:
        # (v) only ever the job itself
        if k['pid'] != k['jobpid'] or k['pid'] <= 0:
            V.append(('R-DEADLINE kill-target', 'kill(%d, %d) while the job is pid %d' % (k['pid'], k['sig'], k['jobpid'])))
    if life < L - stall - pre - 1.0:
        # (ii) finishes in time: unaffected
        if kills and any(k['jobalive'] for k in kills):
            V.append(('R-DEADLINE killed-early', 'job of %.1f s with a limit of %d s was killed at +%.1f s'
                      % (life, L, kills[0]['t'] - t_spawn)))
        if props.get('X-EXIT-STATUS') != str(case['exit']) or 'X-SIGNAL' in props:
            V.append(('R-DEADLINE status-of-finished-job', 'job finished in time with code %d, journal: X-EXIT-STATUS:%s X-SIGNAL:%s'
                      % (case['exit'], props.get('X-EXIT-STATUS'), props.get('X-SIGNAL'))))
    elif life > L + 1.0:
        # (iii) must be terminated at start+L (+1 s jitter), journal shows it
        live_kills = [k for k in kills if k['jobalive']]
        if not live_kills:
            V.append(('R-DEADLINE not-killed', 'job of %.1f s outlived its limit of %d s (%s) and was never signalled; it ended by itself at +%.1f s'
                      % (life, L, case.get('form') if case['mode'] != 'due' else 'DUE', (jx[0]['t'] - t_spawn) if jx else -1)))
        else:
            # the deadline was armed PRE seconds before the spawn record; the spawn call itself returns STALL seconds
            # after it.  A job cannot be signalled before it exists: if the deadline passed earlier, at once.
            dt = live_kills[0]['t'] - (t_spawn - pre)
            if dt > max(L, pre + stall) + 1.5 or dt < L - 1.5:
                V.append(('R-DEADLINE kill-time', 'limit %d s: the job was signalled %.1f s after the executor armed its deadline' % (L, dt)))
            if 'X-SIGNAL' not in props:
                V.append(('R-DEADLINE kill-not-journalled', 'the job was signalled but the journal has no X-SIGNAL: %r' % journal[:300]))
    return V


def run_seed(seed, tier, opts=None):
    case = gen_case(seed, tier, opts)
    v, info = run_chain(case)
    viol = [{'rule': s.split(' ', 1)[0], 'sig': s.split(' ', 1)[1], 'detail': d, 'prop': 'C14', 'case': case} for s, d in v]
    st = {'mode_' + case['mode']: 1, 'form_' + case['form']: 1}
    probes = {}
    if case['life'] > case['L']:
        probes['job_outlives_limit'] = 1
    else:
        probes['job_within_limit'] = 1
    if case['stall']:
        probes['stall_between_alarm_and_spawn'] = 1
    if case.get('tzid'):
        probes['limit_as_local_time_with_tzid'] = 1
    if case.get('across_dst'):
        probes['span_across_a_dst_switch'] = 1
    if case.get('prestall'):
        probes['held_up_before_spawn'] = 1
        if case['prestall'] >= case['L'] and case['mode'] != 'due':
            probes['deadline_expired_before_spawn'] = 1
    return {'seed': seed, 'viol': viol, 'stats': st, 'probes': probes,
            'hash': info.get('hh') or hashlib.sha1(json.dumps(case, sort_keys=True).encode()).hexdigest(), 'simsec': case['life'],
            'plan_hash': hashlib.sha1(json.dumps(case, sort_keys=True).encode()).hexdigest()[:16], 'nops': 2,
            'sample': dict(case, request=info.get('vtodo', '')[:600])}


def replay(doc):
    v, _ = run_chain(doc['case'])
    return [{'rule': s.split(' ', 1)[0], 'sig': s.split(' ', 1)[1], 'detail': d} for s, d in v]


def minimise(doc, want):
    import copy
    case = copy.deepcopy(doc['case'])
    for k, val in (('stall', 0.0), ('exitlag', 0), ('late', [0.0, 1.0, 0.0, 0.01])):
        c = copy.deepcopy(case)
        c[k] = val
        if any(x['rule'] + ' ' + x['sig'] == want for x in replay(dict(doc, case=c))):
            case = c
    return dict(doc, case=case)
