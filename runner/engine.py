"""Campaign engine: generate -> simulate -> check, in a pool of workers."""
import hashlib
import json
import multiprocessing
import os
import signal
import time

from . import gen, model, sim


def splitmix64(x):
    x = (x + 0x9e3779b97f4a7c15) & 0xffffffffffffffff
    x = ((x ^ (x >> 30)) * 0xbf58476d1ce4e5b9) & 0xffffffffffffffff
    x = ((x ^ (x >> 27)) * 0x94d049bb133111eb) & 0xffffffffffffffff
    return x ^ (x >> 31)


def run_seed(prop, i, base_seed):
    h = int(hashlib.sha256(prop.encode()).hexdigest()[:15], 16)
    return splitmix64(base_seed ^ h ^ (i * 0x9e3779b97f4a7c15 & 0xffffffffffffffff)) >> 1


def check_plan(plan, mopts=None):
    """run one plan; returns result dict (violations, stats, hash)"""
    hist, lw, logs, rc = sim.execute(plan)
    res = {'seed': plan['seed'], 'rc': rc}
    if rc != 0 or lw.vq_errors:
        res['machinery'] = 'simd rc=%s vq_errors=%r' % (rc, lw.vq_errors[:1])
        if lw.vq_errors and lw.vq_errors[0][0] == 77:
            # echsq itself tripped a sanitizer while producing wire bytes
            res['machinery'] = None
            res['viol'] = [{'rule': 'R-CRASHFREE', 'prop': '*', 'sig': 'echsq-sanitizer',
                            'detail': lw.vq_errors[0][1][-1500:], 't': 0, 'epoch': 0, 'iter': 0}]
            res['stats'], res['probes'] = {}, {}
            res['hash'] = 'vq'
            res['simsec'] = 0
            return res
        res['viol'] = []
        res['stats'], res['probes'] = {}, {}
        res['hash'] = ''
        res['simsec'] = 0
        return res
    m = model.Model(plan, lw, mopts)
    try:
        viol = m.run(hist)
    except Exception as e:  # a crash of the oracle is a machinery fault
        import traceback
        res['machinery'] = 'model exception: ' + traceback.format_exc()[-1500:]
        viol = []
    # attach the daemon log tail to crash reports
    for v in viol:
        if v['rule'] == 'R-CRASHFREE':
            v['log'] = (logs.get(v.get('epoch', 0)) or '')[-3000:]
    res['viol'] = viol
    res['stats'] = m.stats
    njc = sum(1 for r in hist if r.get('k') == 'jobctl')
    if njc:
        res['stats']['executors_stopped_or_continued'] = njc
    res['probes'] = m.probes
    res['relax'] = m.relax
    res['hash'] = sim.canon_hash(hist)
    ts = [r['t'] for r in hist if r.get('k') == 'iter']
    res['simsec'] = (max(ts) - min(ts)) if ts else 0
    res['sched_sig'] = sched_signature(hist)
    res['abs_states'] = abstract_states(hist)
    return res


def sched_signature(hist):
    h = hashlib.sha1()
    for r in hist:
        if r.get('k') == 'cb':
            h.update((r['w'] + ':' + str(r.get('fn', ''))).encode())
        elif r.get('k') == 'iter':
            h.update(b'|')
    return h.hexdigest()[:16]


def abstract_states(hist):
    """set of abstract states (armed tasks, running executors, open conns)"""
    armed = running = conns = 0
    out = set()
    for r in hist:
        k = r.get('k')
        if k == 'start':
            armed += 1
        elif k == 'stop':
            armed -= 1
        elif k == 'spawn':
            running += 1
        elif k == 'exit':
            running -= 1
        elif k == 'accept':
            conns += 1
        elif k in ('dclose',):
            conns -= 1
        elif k == 'epoch':
            armed = running = conns = 0
        elif k == 'iter':
            out.add((armed, min(running, 9), min(conns, 9)))
    return sorted(out)


_W = {}


def _worker_init():
    signal.signal(signal.SIGINT, signal.SIG_IGN)


def _worker(job):
    prop, profile, seed, tier, gopts, mopts = job
    try:
        if profile == 'C10':
            from . import c10
            return c10.run_seed(seed, tier, gopts)
        if profile == 'C13':
            from . import c13
            return c13.run_seed(seed, tier, gopts)
        if profile == 'C14':
            from . import c14
            return c14.run_seed(seed, tier, gopts)
        if profile == 'C03':
            from . import c03
            return c03.run_seed(seed, tier, gopts)
        if profile == 'C05RT':
            from . import c05rt
            return c05rt.run_seed(seed, tier, gopts)
        plan = gen.gen(profile, seed, tier, gopts)
        if profile == 'C06':
            res = check_c06(plan, mopts)
        else:
            res = check_plan(plan, mopts)
        res['plan_hash'] = hashlib.sha1(json.dumps(plan, sort_keys=True).encode()).hexdigest()[:16]
        res['nops'] = sum(len(e['ops']) for e in plan['epochs'])
        return res
    except Exception:
        import traceback
        return {'seed': seed, 'machinery': 'worker exception: ' + traceback.format_exc()[-2000:],
                'viol': [], 'stats': {}, 'probes': {}, 'hash': '', 'simsec': 0}


def campaign(prop, profile, base_seed, tier, budget_s, max_runs, gopts=None, mopts=None,
             workers=None, stop_on=None):
    """run seeds until the wall budget or MAX_RUNS; yields results"""
    import threading
    workers = workers or min(16, os.cpu_count() or 4)
    t0 = time.time()
    # back-pressure: the pool's feeder thread would otherwise queue hundreds
    # of jobs ahead, which all still run after the budget has expired
    slots = threading.Semaphore(workers * 3)

    def jobs():
        i = 0
        while i < max_runs:
            slots.acquire()
            if time.time() - t0 >= budget_s:
                break
            yield (prop, profile, run_seed(prop, i, base_seed), tier, gopts, mopts)
            i += 1
    with multiprocessing.Pool(workers, _worker_init) as pool:
        for res in pool.imap_unordered(_worker, jobs(), chunksize=1):
            slots.release()
            yield res


# ---------------------------------------------------------------- C06
ERRNOS = {
    'openat': ['EMFILE', 'ENOSPC', 'EACCES'],
    'write': ['ENOSPC', 'EIO', 'EINTR'],
    'close': ['EIO', 'EINTR'],
    'renameat': ['EIO', 'ENOSPC'],
    'unlinkat': ['EIO'],
}


def c06_variants(plan, hist):
    """all single crash points and single failing calls after the MARK op"""
    calls = []
    seen_mark = False
    for r in hist:
        if r.get('k') == 'mark':
            seen_mark = True
        elif r.get('k') == 'epoch' and r.get('n', 0) > 0:
            break
        elif seen_mark and r.get('k') == 'sys':
            calls.append(r['call'])
    out = []
    import copy
    for k, call in enumerate(calls):
        for kind, en in [('crash', 'EIO')] + [('fail', e) for e in ERRNOS.get(call, ['EIO'])] + \
                ([('short', 'EIO')] if call == 'write' else []):
            out.append(apply_variant(plan, {'k': k, 'call': call, 'kind': kind, 'errno': en}))
    return calls, out


def apply_variant(plan, variant):
    """the plan with its MARK op turned into the one fault `variant` describes"""
    import copy
    p = copy.deepcopy(plan)
    ops = p['epochs'][0]['ops']
    for i, o in enumerate(ops):
        if o['op'] == 'mark':
            ops[i] = {'t': o['t'], 'op': 'spoolfault', 'k': variant['k'], 'kind': variant['kind'], 'errno': variant['errno']}
            break
    p['variant'] = dict(variant)
    return p


def check_c06(plan, mopts=None):
    """one evaluation of C06 = one history with ALL its crash/fault positions"""
    hist, lw, logs, rc = sim.execute(plan)
    base = check_plan(plan, mopts)
    if base.get('machinery'):
        return base
    calls, variants = c06_variants(plan, hist)
    res = base
    res['variants'] = len(variants)
    res['calls'] = len(calls)
    res['viol'] = [dict(v, variant=None) for v in base['viol']]
    nfired = 0
    for vp in variants:
        r = check_plan(vp, mopts)
        if r.get('machinery'):
            res['machinery'] = r['machinery']
            continue
        st = r['stats']
        fired = st.get('spoolfaults_fired', 0) + sum(v for k, v in st.items() if k.startswith('crash_at_') and k != 'crash_at_event')
        nfired += 1 if fired else 0
        for k, x in st.items():
            if k.startswith('crash_at_') or k in ('spoolfaults_fired', 'crashes', 'restarts', 'clean_shutdowns'):
                res['stats'][k] = res['stats'].get(k, 0) + x
        for k, x in r['probes'].items():
            res['probes'][k] = res['probes'].get(k, 0) + x
        res['simsec'] += r['simsec']
        for v in r['viol']:
            v = dict(v, variant=vp['variant'])
            v['sig'] = v['sig'] + '@' + vp['variant']['kind'] + ':' + vp['variant']['call']
            res['viol'].append(v)
    res['variants_fired'] = nfired
    return res
