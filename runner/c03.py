"""C03: the merged stream is chronological, complete, duplicate-free; peek
does not consume.  A seeded call schedule (pop / peek / clone+drain /
serialise) is run against the vmux over all tasks of a generated calendar;
the reference is sort+unique over the independently computed occurrence
lists of the constituents."""
import hashlib
import time

from . import gen, ical, simp


def fmt(ts, allday):
    t = time.gmtime(ts)
    if allday:
        return '%04d-%02d-%02d' % (t.tm_year, t.tm_mon, t.tm_mday)
    return '%04d-%02d-%02dT%02d:%02d:%02d' % (t.tm_year, t.tm_mon, t.tm_mday, t.tm_hour, t.tm_min, t.tm_sec)


def gen_case(seed, tier):
    g = gen.G(seed)
    t0 = gen.T_BASE + g.rint(0, 86400 * 365 * 5)
    t0 -= t0 % 86400
    nev = g.wpick([(1, 3), (2, 3), (3, 2), (g.rint(4, 8), 2)])
    specs = []
    # a small set of instants that constituents like to share (ties)
    shared = [t0 + g.rint(0, 5000) for _ in range(3)]
    for i in range(nev):
        uid = 's%d@sim' % (i if g.chance(0.9) else g.rint(0, max(0, i - 1)))
        allday = g.chance(0.15)
        if allday:
            start = t0 + 86400 * g.rint(0, 3)
            rules = [{'freq': 'DAILY', 'interval': g.pick([1, 2, 3]), 'count': g.rint(0, 6) or 1}
                     for _ in range(g.wpick([(1, 4), (2, 1)]))]
            sp = {'uid': uid, 'cmd': 'x', 'start': start, 'allday': True, 'rules': rules}
        else:
            start = g.pick(shared) if g.chance(0.4) else t0 + g.rint(0, 86400 * 3)
            nr = g.wpick([(1, 4), (2, 3), (3, 1.5), (g.rint(4, 6), 1), (0, 0.7)])
            rules = []
            for _ in range(nr):
                f = g.pick(['SECONDLY', 'MINUTELY', 'HOURLY', 'DAILY'])
                iv = g.pick([1, 2, 3, 5, 7, 10, 15, 30, 45, 60, 90])
                if f == 'DAILY':
                    iv = g.pick([1, 2, 3, 7])
                r = {'freq': f, 'interval': iv}
                if g.chance(0.85):
                    r['count'] = g.wpick([(g.rint(1, 6), 4), (g.rint(7, 40), 2), (g.rint(60, 150), 0.7)])
                else:
                    r['until'] = start + g.rint(0, 40) * ical.UNIT[f] * iv + g.rint(0, 3)
                rules.append(r)
            sp = {'uid': uid, 'cmd': 'x', 'start': start, 'rules': rules}
            if g.chance(0.3) or not rules:
                n = g.rint(1, 5)
                rd = sorted(set((g.pick(shared) if g.chance(0.3) else start + g.rint(-3600, 86400)) for _ in range(n)))
                if not rules and start not in rd:
                    rd = sorted(rd + [start])
                if g.chance(0.25):
                    # the same instant listed twice is one occurrence
                    rd = rd + [g.pick(rd)]
                    g.r.shuffle(rd)
                sp['rdates'] = rd
                if len(rd) > 1 and g.chance(0.3):
                    # spread over two RDATE lines
                    sp['rdate_split'] = g.rint(1, len(rd) - 1)
        specs.append(sp)
    # several VEVENTs with one UID are separate streams: an identical
    # occurrence of the same UID collapses, across UIDs it does not
    text = ical.calendar_text([ical.event_text(sp) for sp in specs])
    # reference
    ref = {}
    for sp in specs:
        for ts in ical.arith_occurrences(sp):
            ref[(ts, 0 if sp.get('allday') else 1, sp['uid'])] = True
    # order: by day/time; all-day before timed of the same day
    evs = sorted(ref.keys(), key=lambda k: (k[0], k[1]))
    expected = [(fmt(ts, ad == 0), uid, ts, ad) for ts, ad, uid in evs]
    # schedule
    sched = ''
    npop = 0
    want = len(expected) + 3
    while npop < want and len(sched) < 6000:
        op = g.wpick([('p', 6), ('k', 3), ('kk', 1), ('c', 1), ('s', 0.7)])
        if op == 'c':
            sched += 'c%d' % g.rint(0, 12)
        else:
            sched += op
        if op == 'p':
            npop += 1
    return specs, text, expected, sched


def judge(out, expected, sched):
    """compare the trace of a run with the reference; returns list of (sig, detail)"""
    viol = []
    lines = [l for l in out.split('\n') if l]
    pos = 0            # number of events popped from the original so far
    i = 0
    n = len(expected)

    def same_slot(k, inst, uid):
        """is (inst, uid) an acceptable k-th event?  ties may come in any order"""
        if k >= n:
            return inst == 'END'
        if inst == 'END':
            return False
        exp_inst = expected[k][0]
        if inst != exp_inst:
            return False
        # any not-yet-delivered event with that instant
        return any(e[0] == inst and e[1] == uid for e in expected)
    popped = []
    last_peek = None
    for l in lines:
        if l.startswith('nstrm=') or l in ('seria', 'end', 'nomux'):
            continue
        tok = l.split()
        if tok[0] in ('pop', 'peek'):
            inst = tok[1]
            uid = tok[2] if len(tok) > 2 else None
            if not same_slot(pos, inst, uid):
                exp = expected[pos][:2] if pos < n else ('END',)
                viol.append(('R-MERGE %s-mismatch' % tok[0],
                             '%s #%d returned %s %s, expected %s' % (tok[0], pos, inst, uid, exp)))
                return viol
            if tok[0] == 'peek':
                last_peek = (inst, uid)
            else:
                if last_peek is not None and last_peek != (inst, uid):
                    viol.append(('R-PEEK peek-differs-from-pop',
                                 'peek returned %s but the following pop returned %s (position %d)' % (last_peek, (inst, uid), pos)))
                    return viol
                last_peek = None
                popped.append((inst, uid))
                pos += 1
        elif tok[0] == 'clone':
            cpos = pos
            last_peek_c = None
        elif tok[0] == 'cpop':
            inst = tok[1]
            uid = tok[2] if len(tok) > 2 else None
            if not same_slot(cpos, inst, uid):
                exp = expected[cpos][:2] if cpos < n else ('END',)
                viol.append(('R-CLONE clone-mismatch',
                             'clone taken at position %d: its pop #%d returned %s %s, expected %s' % (pos, cpos, inst, uid, exp)))
                return viol
            cpos += 1
        elif l == 'clone NULL':
            if pos < n:
                viol.append(('R-CLONE clone-null', 'clone of a stream with %d events left returned NULL' % (n - pos)))
                return viol
    # completeness: the multiset delivered equals the reference prefix
    exp_m = sorted((e[0], e[1]) for e in expected[:len([p for p in popped if p[0] != 'END'])])
    got_m = sorted(p for p in popped if p[0] != 'END')
    if exp_m != got_m:
        viol.append(('R-MERGE multiset', 'delivered events differ from the reference as a multiset: missing %s extra %s'
                     % (sorted(set(exp_m) - set(got_m))[:3], sorted(set(got_m) - set(exp_m))[:3])))
    return viol


def check_case(text, expected, sched):
    res = simp.run_jobs([simp.input_line(text.encode('latin1')), simp.strm_job(sched)])
    if len(res) != 1:
        return [('R-MACHINERY simp', 'no result')], ''
    ok, out = res[0]
    if not ok:
        return [('R-CRASHFREE stream-crash', out.split('\n')[-1])], out
    return judge(out, expected, sched), out


def run_seed(seed, tier, opts=None):
    specs, text, expected, sched = gen_case(seed, tier)
    v, out = check_case(text, expected, sched)
    viol = []
    for sig, detail in v:
        rule, s = sig.split(' ', 1)
        viol.append({'rule': rule, 'sig': s, 'detail': detail, 'prop': 'C03',
                     'input': text.encode('latin1').hex(), 'sched': sched,
                     'expected': [list(e[:2]) for e in expected]})
    ties = len(expected) - len(set(e[0] for e in expected))
    res = {'seed': seed, 'viol': viol,
           'stats': {'events_expected': len(expected), 'calls': len(sched), 'constituent_events': len(specs),
                     'rules': sum(len(s.get('rules', [])) for s in specs)},
           'probes': {}, 'hash': hashlib.sha1(out.encode()).hexdigest(), 'simsec': 0,
           'plan_hash': hashlib.sha1((text + sched).encode('latin1')).hexdigest()[:16],
           'nops': len(sched)}
    if ties:
        res['probes']['ties_between_constituents'] = ties
    if any(len(s.get('rules', [])) > 1 for s in specs):
        res['probes']['several_rrules_in_one_event'] = 1
    if any(s.get('rdates') and s.get('rules') for s in specs):
        res['probes']['rrule_plus_rdate'] = 1
    if any(s.get('rdate_split') for s in specs):
        res['probes']['several_rdate_lines'] = 1
    if any(len(s.get('rdates', [])) != len(set(s.get('rdates', []))) for s in specs):
        res['probes']['rdate_listed_twice'] = 1
    if any(s.get('allday') for s in specs) and any(not s.get('allday') for s in specs):
        res['probes']['allday_and_timed'] = 1
    if len(expected) > 64:
        res['probes']['more_than_64_events'] = 1
    if 'c' in sched:
        res['probes']['clone_used'] = 1
    res['sample'] = {'calendar': text[:1200], 'schedule': sched[:200], 'expected_first': [list(e[:2]) for e in expected[:8]],
                     'events': len(expected)}
    return res


def replay(doc):
    text = bytes.fromhex(doc['input']).decode('latin1')
    expected = [tuple(e) for e in doc['expected']]
    v, _ = check_case(text, expected, doc['sched'])
    return [{'rule': s.split(' ', 1)[0], 'sig': s.split(' ', 1)[1], 'detail': d} for s, d in v]


def minimise(doc, want):
    """shorten the schedule (the calendar stays: its reference is tied to it)"""
    sched = doc['sched']

    def fails(s):
        d = dict(doc, sched=s)
        return any(x['rule'] + ' ' + x['sig'] == want for x in replay(d))
    # drop trailing ops, then peeks/clones/serialisations
    lo, hi = 1, len(sched)
    while lo < hi:
        mid = (lo + hi) // 2
        if fails(sched[:mid]):
            hi = mid
        else:
            lo = mid + 1
    sched = sched[:lo]
    for ch in ('s', 'k'):
        cand = sched.replace(ch, '')
        if cand != sched and fails(cand):
            sched = cand
    return dict(doc, sched=sched)
