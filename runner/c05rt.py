"""C05, library stage: tasks survive serialisation at every stream position.

One evaluation = one generated calendar (events over the whole RRULE
language and all task fields) x a list of consumption prefixes K.  For every
K the simp engine consumes K occurrences, writes the task out through
echs_icalify_init/echs_task_icalify/echs_icalify_fini (what echsd's
checkpoint, echsq's submission and echse merge do) and reads the text back.

Oracle (needs no second recurrence engine): the task read back must equal,
field by field and occurrence by occurrence (start and duration), a control
copy of the same task that consumed K occurrences and was never written; and
the written task itself must be unchanged by the writing."""
import hashlib
import re

from . import gen, ical, simp

NOCC = 10
WD = ['MO', 'TU', 'WE', 'TH', 'FR', 'SA', 'SU']


def ilist(g, lo, hi, nmax, neg=False):
    n = g.wpick([(1, 5), (2, 3), (3, 2), (g.rint(1, nmax), 1)])
    xs = set()
    for _ in range(n):
        v = g.rint(lo, hi)
        if neg and g.chance(0.3):
            v = -v
        if v != 0 or lo <= 0:
            xs.add(v)
    return ','.join(str(x) for x in (sorted(xs) if g.chance(0.7) else list(xs))) or str(lo)


def rand_rrule(g, start, opts):
    """(text of the RRULE value, dict of what it uses)"""
    f = g.wpick([('YEARLY', 3), ('MONTHLY', 3), ('WEEKLY', 3), ('DAILY', 3), ('HOURLY', 2), ('MINUTELY', 2), ('SECONDLY', 1)])
    if opts.get('allday'):
        # RFC 5545 3.3.10: BYSECOND, BYMINUTE and BYHOUR MUST NOT be specified when DTSTART is a DATE
        f = g.wpick([('YEARLY', 3), ('MONTHLY', 3), ('WEEKLY', 3), ('DAILY', 3)])
    parts = ['FREQ=' + f]
    use = {'freq': f}
    if g.chance(0.45):
        iv = g.wpick([(2, 4), (3, 2), (g.rint(4, 12), 2), (g.rint(13, 40), 0.6)])
        if not opts.get('big_intervals') and f in ('DAILY', 'HOURLY', 'MINUTELY', 'SECONDLY'):
            iv = min(iv, 24)
        parts.append('INTERVAL=%d' % iv)
        use['interval'] = iv
    if f == 'YEARLY':
        shape = g.wpick([('mon-mday', 3), ('mon-wday', 3), ('yday', 1.5), ('weekno', 1.5), ('easter', 1.5), ('plain', 1), ('wday', 1)])
        if shape == 'mon-mday':
            parts.append('BYMONTH=' + ilist(g, 1, 12, 4))
            parts.append('BYMONTHDAY=' + ilist(g, 1, 28, 6, neg=True))
            if g.chance(0.25):
                parts.append('BYDAY=' + ','.join(sorted(set(g.pick(WD) for _ in range(g.rint(1, 3))))))
        elif shape == 'mon-wday':
            parts.append('BYMONTH=' + ilist(g, 1, 12, 3))
            parts.append('BYDAY=' + ','.join(sorted(set(g.pick(['', '1', '2', '3', '4', '-1', '-2']) + g.pick(WD) for _ in range(g.rint(1, 3))))))
        elif shape == 'yday':
            parts.append('BYYEARDAY=' + ilist(g, 1, 365, 4, neg=True))
        elif shape == 'weekno':
            parts.append('BYWEEKNO=' + ilist(g, 1, 52, 3, neg=True))
            parts.append('BYDAY=' + ','.join(sorted(set(g.pick(WD) for _ in range(g.rint(1, 2))))))
        elif shape == 'easter':
            parts.append('BYEASTER=' + ilist(g, 0, 60, 3, neg=True))
        elif shape == 'wday':
            parts.append('BYDAY=' + ','.join(sorted(set(g.pick(['1', '2', '-1', '20', '']) + g.pick(WD) for _ in range(g.rint(1, 2))))))
        use['shape'] = shape
    elif f == 'MONTHLY':
        shape = g.wpick([('mday', 3), ('wday', 3), ('plain', 1)])
        if shape == 'mday':
            parts.append('BYMONTHDAY=' + ilist(g, 1, 31, 6, neg=True))
        elif shape == 'wday':
            parts.append('BYDAY=' + ','.join(sorted(set(g.pick(['', '1', '2', '3', '4', '5', '-1', '-2']) + g.pick(WD) for _ in range(g.rint(1, 3))))))
        if g.chance(0.2):
            parts.append('BYMONTH=' + ilist(g, 1, 12, 5))
        use['shape'] = shape
    elif f == 'WEEKLY':
        if g.chance(0.7):
            parts.append('BYDAY=' + ','.join(sorted(set(g.pick(WD) for _ in range(g.rint(1, 4))))))
            use['shape'] = 'wday'
        if g.chance(0.15):
            parts.append('WKST=' + g.pick(WD))
            use['wkst'] = 1
    elif f == 'DAILY':
        if g.chance(0.3):
            parts.append('BYDAY=' + ','.join(sorted(set(g.pick(WD) for _ in range(g.rint(1, 5))))))
        if g.chance(0.2):
            parts.append('BYMONTH=' + ilist(g, 1, 12, 5))
        if g.chance(0.2):
            parts.append('BYMONTHDAY=' + ilist(g, 1, 31, 8, neg=True))
    sub = not opts.get('allday')
    if sub and f in ('DAILY', 'WEEKLY', 'MONTHLY', 'YEARLY') and g.chance(0.25):
        parts.append('BYHOUR=' + ilist(g, 0, 23, 4))
        use['byhour'] = 1
    if sub and (f != 'SECONDLY' and f != 'MINUTELY' and g.chance(0.25) or f == 'MINUTELY' and g.chance(0.15)):
        parts.append('BYMINUTE=' + ilist(g, 0, 59, 4))
        use['byminute'] = 1
    if sub and f != 'SECONDLY' and g.chance(0.2):
        parts.append('BYSECOND=' + ilist(g, 0, 59, 4))
        use['bysecond'] = 1
    if g.chance(0.15) and len(parts) > 2:
        parts.append('BYSETPOS=' + ilist(g, 1, 4, 3, neg=True))
        use['bysetpos'] = 1
    if g.chance(0.08) and f in ('YEARLY', 'MONTHLY') and not opts.get('avoid_shift'):
        parts.append('SHIFT=' + g.pick(['1', '7', '-1', '1B', '1B+', '-2B']))
        use['shift'] = 1
    if g.chance(0.1) and f in ('YEARLY', 'MONTHLY'):
        parts.append('SCALE=' + g.pick(['HIJRI', 'HIJRI', 'HIJRI.UMMULQURA', 'HIJRI.DIYANET', 'HIJRI.IA', 'HIJRI.IC', 'HIJRI.IIA',
                                        'HIJRI.IIIC', 'HIJRI.IVA', 'HIJRI.IVC', 'GREGORIAN']))
        use['scale'] = 1
    end = g.wpick([('count', 5), ('until', 2), ('none', 2)])
    if end == 'count':
        c = g.wpick([(g.rint(1, 12), 4), (g.rint(13, 70), 3), (g.pick([63, 64, 65, 127, 128, 129]), 1.5), (g.rint(71, 300), 1)])
        parts.append('COUNT=%d' % c)
        use['count'] = c
    elif end == 'until':
        span = {'YEARLY': 86400 * 366 * 30, 'MONTHLY': 86400 * 31 * 40, 'WEEKLY': 86400 * 7 * 60, 'DAILY': 86400 * 90,
                'HOURLY': 3600 * 200, 'MINUTELY': 60 * 300, 'SECONDLY': 400}[f]
        u = start + g.rint(0, span)
        parts.append('UNTIL=' + (ical.ts2ical(u) if g.chance(0.8) else ical.ts2ical(u)[:8]))
        use['until'] = 1
    # the order of the parts is free in RFC 5545
    if g.chance(0.3):
        head, rest = parts[0], parts[1:]
        g.r.shuffle(rest)
        parts = [head] + rest
    return ';'.join(parts), use


def gen_case(seed, tier, opts=None):
    opts = opts or {}
    g = gen.G(seed)
    t0 = gen.T_BASE + g.rint(0, 86400 * 365 * 8)
    nev = g.wpick([(1, 5), (2, 2), (3, 1)])
    evs = []
    uses = []
    specs = []
    for i in range(nev):
        start = t0 + g.rint(0, 86400 * 30)
        if g.chance(0.3):
            start -= start % 60
        allday = g.chance(0.12)
        sp = {'uid': 'r%d@sim' % i, 'cmd': g.pick(['true', '/bin/echo hello', 'sleep 1; date']), 'start': start, 'rules': [],
              'allday': allday}
        gen.add_fields(g, sp)
        sp.pop('_dur', None)
        lines = []
        nr = g.wpick([(1, 8), (2, 1 if not opts.get('avoid_multi') else 0), (0, 0.5)])
        use = {}
        for _ in range(nr):
            txt, u = rand_rrule(g, start, dict(opts, allday=allday))
            lines.append('RRULE:' + txt)
            use.update(u)
        use['nrules'] = nr
        if (g.chance(0.12) or nr == 0) and not opts.get('avoid_rdate'):
            n = g.rint(1, 4)
            rd = sorted(set(start + g.rint(1, 86400 * 40) for _ in range(n)))
            lines.append('RDATE:' + ','.join(ical.ts2ical(x) for x in rd))
            use['rdate'] = n
        if g.chance(0.1) and not opts.get('avoid_exdate') and nr:
            lines.append('EXDATE:' + ical.ts2ical(start + 86400 * g.rint(0, 30)))
            use['exdate'] = 1
        if g.chance(0.05) and not opts.get('avoid_exdate') and nr:
            lines.append('EXRULE:FREQ=%s;BYDAY=%s' % (g.pick(['WEEKLY', 'YEARLY']), g.pick(WD)))
            use['exrule'] = 1
        if sp.get('duration') is not None:
            use['duration'] = 1
        if sp.get('dtend') is not None:
            use['dtend'] = 1
            if allday:
                sp['dtend'] = start + 86400 * g.rint(1, 3)
        if g.chance(0.2):
            sp['owner'] = g.pick(['1000', 'alice', '0'])
        if g.chance(0.15):
            sp['setuid'] = g.pick(['1001', 'bob'])
        if g.chance(0.15):
            sp['setgid'] = g.pick(['100', 'users'])
        if g.chance(0.3):
            sp['maxsimul'] = g.pick(['1', '2', '7', '31', '62'])
        if g.chance(0.07):
            # one event whose written form is larger than the serialiser's 4 KiB write buffer, every line below 1 KiB
            n = lambda: g.rint(600, 950)
            sp['cmd'] = '/bin/echo ' + 'a' * n()
            sp['desc'] = 'b' * n()
            sp['location'] = '/tmp/' + 'c' * n()
            sp['ifile'] = '/tmp/' + 'd' * n()
            sp['ofile'] = '/tmp/' + 'e' * n()
            sp['efile'] = '/tmp/' + 'f' * n()
            sp['shell'] = '/bin/' + 'g' * n()
            use['bigger_than_write_buffer'] = 1
        sp['extra_lines'] = lines
        specs.append(sp)
        evs.append(ical.event_text(sp))
        # classes of the recorded known findings (several RRULEs, RDATE, EXDATE/EXRULE, SHIFT): the occurrences after
        # a round trip are known to differ; everything else (fields, no crash, a well-formed text) is still checked
        use['loose'] = bool(nr > 1 or use.get('rdate') or use.get('exdate') or use.get('exrule') or use.get('shift'))
        uses.append(use)
    cal = {}
    if g.chance(0.35):
        # calendar-level values: defaults for what an event leaves unset, nothing more
        for key, vals in (('owner', ['1000', 'carol']), ('umask', ['027', '077', '0']), ('maxsimul', ['1', '3', '5']),
                          ('setuid', ['1002', 'dave']), ('setgid', ['staff', '200'])):
            if g.chance(0.5):
                cal[key] = g.pick(vals)
    text = ical.calendar_text(evs, cal=cal)
    for u, sp in zip(uses, specs):
        u['expect'] = expected_fields(sp, cal)
    ks = set([0, 1])
    for _ in range(3 if tier == 'quick' else 8):
        ks.add(g.wpick([(g.rint(2, 20), 3), (g.pick([31, 62, 63, 64, 65, 66]), 2), (g.pick([126, 127, 128, 129, 190]), 1),
                        (g.rint(21, 200), 1)]))
    for u in uses:
        if u.get('scale'):
            # the tabulated Hijri calendars end in the 2070s: run up to and past the end of the table
            ks.update([45, 130, 200])
        if 'count' in u:
            for d in (-1, 0, 1):
                if u['count'] + d >= 0 and g.chance(0.5):
                    ks.add(u['count'] + d)
    return text, sorted(ks), uses


def nms(v):
    """how the dump shows a number-or-name value"""
    if v is None:
        return '-'
    return '#%d' % int(v) if str(v).isdigit() else '"%s"' % v


def expected_fields(sp, cal):
    """README field mapping, computed from the generator's spec (not by echse): what the parsed task must
    hold.  Calendar-level values count only where the event has none of its own."""
    def own_or_cal(k):
        return sp.get(k) if sp.get(k) is not None else cal.get(k)
    e = {'uid': '"%s"' % sp['uid'], 'owner': nms(own_or_cal('owner')), 'u': nms(own_or_cal('setuid')), 'g': nms(own_or_cal('setgid'))}
    um = own_or_cal('umask')
    e['umask'] = '%o' % int(str(um), 8) if um is not None else None      # unset: whatever the build's default is
    ms = own_or_cal('maxsimul')
    e['maxsimul'] = str(int(ms)) if ms is not None else '63'
    for k, f in (('location', 'wd'), ('shell', 'sh'), ('ifile', 'in'), ('ofile', 'out'), ('efile', 'err')):
        v = sp.get(k)
        e[f] = '-' if v is None else None if any(c in v for c in '"\\\t') or any(ord(c) > 126 for c in v) else '"%s"' % v
    return e


TOK = re.compile(r' (\w+)=("(?:[^"\\]|\\.)*"|\[[^\]]*\]|\S+)')


def fields_of(dump):
    d = dict(TOK.findall(dump))
    if 'occ' in d:
        # an instant with an explicit .000 and one without name the same moment
        d['occ'] = d['occ'].replace('.000+', '+')
    return d


def parse_rt(out):
    """list of per-task dicts {k, kb, text, ctrl, orig, back:[..]}"""
    tasks = []
    cur = None
    for l in out.split('\n'):
        if re.match(r'T\d+ k=', l):
            m = re.match(r'T(\d+) k=(\d+) kb=(\d+)', l)
            cur = {'i': int(m.group(1)), 'k': int(m.group(2)), 'kb': int(m.group(3)), 'back': []}
            tasks.append(cur)
        elif cur is None:
            continue
        elif l.startswith('text '):
            m = re.match(r'text wrc=(-?\d+) ([0-9a-f]*)', l)
            cur['wrc'] = int(m.group(1))
            cur['text'] = bytes.fromhex(m.group(2)).decode('latin1')
        elif l.startswith('ctrl '):
            cur['ctrl'] = l[4:]
        elif l.startswith('orig '):
            cur['orig'] = l[4:]
        elif l.startswith('back '):
            cur['back'].append(l[4:])
    return tasks


# task attributes the property names (dump_task keys)
ATTRS = ['uid', 'cmd', 'owner', 'u', 'g', 'wd', 'sh', 'org', 'att', 'in', 'out', 'err', 'mail', 'maxsimul', 'umask']


def wellformed(text):
    """structure of a written calendar, independent of the SUT's parser"""
    comps = ical.split_components(text, 'VEVENT')
    if text and not text.startswith('BEGIN:VCALENDAR\n'):
        return 'does not start with BEGIN:VCALENDAR'
    if text and not text.endswith('END:VCALENDAR\n'):
        return 'does not end with END:VCALENDAR'
    for props in comps:
        keys = [k for k, p, v in props]
        if 'UID' not in keys:
            return 'VEVENT without UID'
        if 'DTSTART' not in keys:
            return 'VEVENT without DTSTART'
    return None


def judge_task(t, K, loose=False, expect=None):
    V = []
    if 'ctrl' not in t or 'orig' not in t:
        return [('R-MACHINERY rt', 'incomplete block')]
    fc, fo = fields_of(t['ctrl']), fields_of(t['orig'])
    # read as written: what the parser made of the text against the README mapping
    for k, want in sorted((expect or {}).items()):
        if want is not None and fc.get(k) != want:
            V.append(('R-RT read:' + k, 'the text assigns %s=%s (own value, else the calendar-level default), the parsed task has %s'
                      % (k, want, fc.get(k))))
            return V
    if t['k'] != t['kb']:
        V.append(('R-RT unstable', 'two parses of one text consumed %d and %d occurrences' % (t['k'], t['kb'])))
        return V
    if fc != fo:
        d = [k for k in sorted(set(fc) | set(fo)) if fc.get(k) != fo.get(k)]
        V.append(('R-RT write-consumes:' + d[0], 'after %d pops, writing the task changed it: %s ctrl %s, written one %s'
                  % (t['k'], d[0], fc.get(d[0]), fo.get(d[0]))))
        return V
    rest = fc.get('occ', '[]')
    exhausted = rest.strip('[] ') in ('END', '') or 'nostrm' in t['ctrl']
    if not t['back']:
        bad = wellformed(t.get('text', ''))
        if bad:
            V.append(('R-RT malformed', 'after %d pops the written text is not a well-formed calendar: %s' % (t['k'], bad)))
        elif not exhausted:
            V.append(('R-RT not-written', 'after %d pops occurrences remain (%s) but the written text holds no task' % (t['k'], rest[:80])))
        return V
    if len(t['back']) != 1:
        V.append(('R-RT split', 'one task was written as %d' % len(t['back'])))
        return V
    fb = fields_of(t['back'][0])
    for a in ATTRS:
        if fb.get(a) != fc.get(a):
            V.append(('R-RT field:' + a, 'after %d pops: %s is %s, read back as %s' % (t['k'], a, fc.get(a), fb.get(a))))
            return V
    bad = wellformed(t.get('text', ''))
    if bad:
        V.append(('R-RT malformed', 'after %d pops the written text is not a well-formed calendar: %s' % (t['k'], bad)))
        return V
    if loose:
        return V
    def upto2099(toks):
        # (echse's instants span 1902..2098; beyond 2099 the engine's calendar is off - 2100 is no leap year - and
        # years wrap at 4095: not a C05 matter)
        out = []
        for x in toks:
            if x != 'END' and x[:4].isdigit() and not 1900 <= int(x[:4]) <= 2099:
                break
            out.append(x)
        return out
    co = upto2099(rest.strip('[]').split())
    bo = upto2099(fb.get('occ', '[]').strip('[]').split())
    n = min(len(co), len(bo)) if (len(co) < len(rest.strip('[]').split()) or len(bo) < len(fb.get('occ', '[]').strip('[]').split())) else max(len(co), len(bo))
    if co[:n] != bo[:n]:
        i = next((j for j in range(min(len(co), len(bo))) if co[j] != bo[j]), min(len(co), len(bo)))
        what = 'duration' if i < len(co) and i < len(bo) and co[i].split('+')[0] == bo[i].split('+')[0] else 'occurrences'
        V.append(('R-RT ' + what, 'after %d pops the remaining occurrences are %s ... but the written task yields %s ... (first difference at #%d)'
                  % (t['k'], ' '.join(co[i:i + 3]) or 'END', ' '.join(bo[i:i + 3]) or 'END', i)))
    return V


def loose_tasks(text):
    """indices of the events that fall into the classes of the recorded known
    findings (several RRULEs, RDATE, EXDATE/EXRULE, SHIFT): their occurrences
    after a round trip are known to differ and are not compared"""
    out = []
    for i, props in enumerate(ical.split_components(text, 'VEVENT')):
        keys = [k for k, p, v in props]
        rr = [v for k, p, v in props if k == 'RRULE']
        if len(rr) > 1 or 'RDATE' in keys or 'EXDATE' in keys or 'EXRULE' in keys or any('SHIFT=' in (v or '') for v in rr):
            out.append(i)
    return out


def crash_report(data, job):
    """stderr of one crashing job, symbolised (slow path, crashes only)"""
    import os
    import subprocess
    env = dict(os.environ, SIMP_STDERR='1', ASAN_OPTIONS='symbolize=1', UBSAN_OPTIONS='print_stacktrace=1')
    try:
        p = subprocess.run([simp.BUILD + '/simp'], input=(simp.input_line(data) + '\n' + job + '\n').encode('latin1'),
                           stdout=subprocess.DEVNULL, stderr=subprocess.PIPE, timeout=60, env=env)
        return p.stderr.decode('latin1', 'replace')
    except Exception as e:
        return 'no report: %r' % e


def check_case(text, ks, strict=False, expects=None):
    """STRICT: compare occurrences of the known-finding classes too (their witnesses);
    EXPECTS: per task, the fields the text assigns (generator's knowledge)"""
    loose = [] if strict else loose_tasks(text)
    data = text.encode('latin1')
    kmax = max(ks)
    jobs = [simp.input_line(data), simp.parse_job('f', 'b', [0], kmax + NOCC) + ' 4']
    jobs += ['rt %d %d 4' % (k, NOCC) for k in ks]
    res = simp.run_jobs(jobs, timeout=900)
    if len(res) != 1 + len(ks):
        return [('R-MACHINERY simp', 'no result', None)], '', {'machinery': 1}
    info = {}
    ok, out = res[0]
    if not ok:
        # the recurrence engine itself crashes or hangs on this text (C01/C02 territory): nothing to say about C05
        info['engine_timeout' if 'signal=14' in out.split('\n')[-1] else 'engine_crash'] = 1
        return [], out, info
    V = []
    outs = [out]
    for k, (ok, out) in zip(ks, res[1:]):
        outs.append(out)
        if not ok:
            last = out.split('\n')[-1]
            if 'signal=14' in last:
                info['rt_timeout'] = info.get('rt_timeout', 0) + 1
                continue
            rep = crash_report(data, 'rt %d %d 9' % (k, NOCC))
            top = re.findall(r'#0 0x[0-9a-f]+ in (\S+) (\S+)', rep)
            V.append(('R-CRASHFREE serialise-crash', 'rt %d: %s%s' % (k, last, (' in %s %s' % top[0]) if top else ''), k))
            continue
        for t in parse_rt(out):
            for sig, detail in judge_task(t, k, t['i'] in loose, (expects or {}).get(t['i'])):
                V.append((sig, 'task %d: %s\nwritten text:\n%s' % (t['i'], detail, t.get('text', '')), k))
    return V, '\n'.join(outs), info


def run_seed(seed, tier, opts=None):
    text, ks, uses = gen_case(seed, tier, opts)
    loose = loose_tasks(text)
    expects = {i: u['expect'] for i, u in enumerate(uses)}
    V, out, info = check_case(text, ks, expects=expects)
    viol = []
    seen = set()
    for sig, detail, k in V:
        if sig in seen:
            continue
        seen.add(sig)
        rule, s = sig.split(' ', 1)
        viol.append({'rule': rule, 'sig': s, 'detail': detail, 'prop': 'C05', 'input': text.encode('latin1').hex(),
                     'sched': ','.join(str(x) for x in ([k] if k is not None else ks)), 'case': 'rt',
                     'expects': {str(i): e for i, e in expects.items()}})
    probes = {}
    if loose:
        probes['known_finding_class_checked_loosely'] = len(loose)
    for u in uses:
        if u.get('bigger_than_write_buffer'):
            probes['event_bigger_than_write_buffer'] = 1
        for key in ('bysetpos', 'byminute', 'bysecond', 'byhour', 'shift', 'scale', 'rdate', 'exdate', 'exrule', 'until', 'duration', 'dtend', 'wkst'):
            if u.get(key):
                probes['uses_' + key] = 1
        if u.get('nrules', 0) > 1:
            probes['several_rrules'] = 1
        if u.get('count', 0) >= 64:
            probes['count_beyond_one_cache_load'] = 1
        if u.get('shape'):
            probes['shape_%s_%s' % (u.get('freq', '').lower(), u['shape'])] = 1
    if max(ks) >= 64:
        probes['prefix_beyond_one_cache_load'] = 1
    for k, v in info.items():
        probes[k] = v
    return {'seed': seed, 'viol': viol, 'stats': {'prefixes': len(ks), 'events': len(uses)}, 'probes': probes,
            'hash': hashlib.sha1(out.encode('latin1', 'replace')).hexdigest(), 'simsec': 0,
            'plan_hash': hashlib.sha1(text.encode('latin1')).hexdigest()[:16], 'nops': len(ks) + 1,
            'sample': {'calendar': text[:1500], 'prefixes': ks}}


def replay(doc):
    text = bytes.fromhex(doc['input']).decode('latin1')
    ks = [int(x) for x in doc['sched'].split(',') if x != '']
    ex = {int(i): e for i, e in (doc.get('expects') or {}).items()}
    V, _, _ = check_case(text, ks, bool(doc.get('strict')), ex)
    return [{'rule': s.split(' ', 1)[0], 'sig': s.split(' ', 1)[1], 'detail': d} for s, d, _ in V]


def minimise(doc, want):
    """drop events and RRULE parts while the same violation persists"""
    text = bytes.fromhex(doc['input']).decode('latin1')

    def fails(tx):
        d = dict(doc, input=tx.encode('latin1').hex())
        try:
            return any(x['rule'] + ' ' + x['sig'] == want for x in replay(d))
        except Exception:
            return False
    # 1. whole events
    evs = re.findall(r'BEGIN:VEVENT\n.*?END:VEVENT\n', text, re.S)
    if len(evs) > 1:
        for e in evs:
            cand = text.replace(e, '')
            if fails(cand):
                text = cand
    # 2. lines of the remaining events (not the structural ones)
    changed = True
    while changed:
        changed = False
        lines = text.split('\n')
        for i, l in enumerate(lines):
            if re.match(r'(BEGIN|END|UID|DTSTART|VERSION|PRODID)', l) or not l:
                continue
            cand = '\n'.join(lines[:i] + lines[i + 1:])
            if fails(cand):
                text = cand
                changed = True
                break
    # 3. parts of RRULE lines
    changed = True
    while changed:
        changed = False
        for m in re.finditer(r'^(RRULE|EXRULE):(.*)$', text, re.M):
            parts = m.group(2).split(';')
            for j, p in enumerate(parts):
                if p.startswith('FREQ=') or len(parts) < 2:
                    continue
                cand = text[:m.start(2)] + ';'.join(parts[:j] + parts[j + 1:]) + text[m.end(2):]
                if fails(cand):
                    text = cand
                    changed = True
                    break
            if changed:
                break
    return dict(doc, input=text.encode('latin1').hex())
