"""C10: parsing is independent of how the bytes arrive.

One evaluation = one input byte string delivered under many partitions
through the reader loops of the code base; the canonical dump of the pulled
instructions (all task fields + first occurrences) must equal the dump of
the single-piece delivery, and nothing may crash, overrun or hang."""
import glob
import hashlib
import os

from . import gen, ical, simp

FIXED = [2, 3, 5, 7, 13, 64, 1023, 1024, 1025, 4095, 4096, 4097]


def sample_files():
    out = []
    for fn in sorted(glob.glob(os.environ.get('VERIF_REPO', '/repo') + '/test/*.ics')) + sorted(glob.glob(os.environ.get('VERIF_REPO', '/repo') + '/test/*.echs')):
        try:
            b = open(fn, 'rb').read()
        except OSError:
            continue
        if 0 < len(b) <= 60000:
            out.append((os.path.basename(fn), b))
    return out


_SAMPLES = None


def gen_input(seed):
    """a byte string and a label"""
    global _SAMPLES
    g = gen.G(seed)
    kind = g.wpick([('gen', 6), ('sample', 2), ('mut', 2.5)])
    if _SAMPLES is None:
        _SAMPLES = sample_files()
    if kind == 'sample' and _SAMPLES:
        name, b = g.pick(_SAMPLES)
        return b, 'sample:' + name
    # generated calendar
    t0 = gen.T_BASE + g.rint(0, 86400 * 365 * 5)
    nev = g.wpick([(1, 4), (2, 2), (g.rint(3, 8), 1)])
    evs = []
    crlf = g.chance(0.4)
    method = g.wpick([(None, 3), ('PUBLISH', 2), ('CANCEL', 1), ('REPLY', 1), ('REQUEST', 0.5)])
    for i in range(nev):
        sp = gen.arith_spec(g, 'p%d@sim' % i, t0, 3600, {'max_occ': 10})
        gen.add_fields(g, sp)
        sp.pop('_dur', None)
        if g.chance(0.2):
            sp['comp'] = 'VTODO'
        if g.chance(0.15):
            # (SUMMARY: + n bytes: lines just below, at and above the parser's 2048 byte line store)
            sp['cmd'] = 'x' * g.pick([990, 1015, 1023, 1024, 2000, 2036, 2037, 2038, 2039, 2040, 2041, 2042, 2043, 2044, 2050, 4090])
        if g.chance(0.2):
            # escapes (dump equality only; no claim about their meaning)
            sp['desc'] = g.pick(['a\\nb', 'semi\\;colon', 'back\\\\slash', 'comma\\,x', 'q\\"q', 'end\\'])
        if method == 'REPLY':
            sp['extra_lines'] = ['REQUEST-STATUS:' + g.pick(['2.0;Success', '5.1;Service unavailable', '3.1;x'])]
        if method == 'CANCEL' and g.chance(0.5):
            sp['extra_lines'] = ['RECURRENCE-ID:' + ical.ts2ical(sp['start']) + g.pick(['', '+'])]
        if g.chance(0.15):
            sp['extra_lines'] = sp.get('extra_lines', []) + ['BEGIN:VALARM', 'ACTION:DISPLAY', 'TRIGGER:-PT5M', 'END:VALARM'] \
                if False else sp.get('extra_lines', []) + ['X-FOO;PARAM=1:bar', 'CATEGORIES:a,b']
        fw = g.pick([0, 0, 20, 40, 75])
        if fw and g.chance(0.3):
            sp['foldws'] = '\t'
        evs.append(ical.event_text(sp, crlf=crlf, foldw=fw))
        if g.chance(0.1):
            nl = '\r\n' if crlf else '\n'
            evs.append('BEGIN:VTIMEZONE%sTZID:X%sBEGIN:STANDARD%sDTSTART:19700101T000000%sEND:STANDARD%sEND:VTIMEZONE%s' % ((nl,) * 6))
    cal = {}
    if g.chance(0.2):
        cal['maxsimul'] = g.pick([1, 2, 5])
    if g.chance(0.2):
        cal['owner'] = g.pick(['1000', 'alice'])
    if g.chance(0.2):
        cal['umask'] = g.pick(['022', '077'])
    text = ical.calendar_text(evs, cal=cal, crlf=crlf, method=method)
    if g.chance(0.15):
        text = text + text          # two calendars in one stream
    if g.chance(0.1):
        text = g.pick(['\n', '\r\n', 'junk line\n', ' \n']) + text
    b = text.encode('latin1')
    label = 'gen'
    if kind == 'mut':
        label = 'mut'
        bb = bytearray(b)
        for _ in range(g.rint(1, 4)):
            op = g.pick(['trunc', 'flip', 'del', 'dup', 'ins'])
            if not bb:
                break
            i = g.rint(0, len(bb) - 1)
            if op == 'trunc':
                del bb[i:]
            elif op == 'flip':
                bb[i] = g.pick([0, 1, 10, 13, 32, 9, 58, 59, 92, 255, bb[i] ^ 0x20])
            elif op == 'del':
                del bb[i:i + g.rint(1, 20)]
            elif op == 'dup':
                bb[i:i] = bb[i:i + g.rint(1, 40)]
            else:
                bb[i:i] = g.pick([b'\n ', b'\r\n\t', b'\\', b'\n', b':', b'BEGIN:', b'END:VCALENDAR\n'])
        b = bytes(bb) or b'\n'
    return b[:60000], label


def interesting_cuts(b):
    """offsets where a piece boundary is most likely to matter"""
    cuts = set()
    n = len(b)
    for i, c in enumerate(b):
        if c in (13, 10, 92):            # \r \n backslash
            cuts.add(i)
            cuts.add(i + 1)
        if c == 10 and i + 1 < n and b[i + 1] in (32, 9):
            cuts.add(i + 2)
        if c == 58 and i < 200000:       # ':' after a key
            pass
    return sorted(x for x in cuts if 0 < x < n)


def partitions(b, g, tier):
    """list of size lists"""
    n = len(b)
    parts = [[1]]
    for k in FIXED:
        if k < n + 2:
            parts.append([k])
    for _ in range(6 if tier == 'quick' else 20):
        m = g.pick([3, 8, 40, 200, 1500])
        parts.append([g.rint(1, m) for _ in range(g.rint(2, 12))])
    cuts = interesting_cuts(b)
    if n <= 4096:
        singles = cuts
    else:
        singles = [g.pick(cuts) for _ in range(min(len(cuts), 40))] if cuts else []
    cap = 150 if tier == 'quick' else 1200
    if len(singles) > cap:
        singles = sorted(g.r.sample(singles, cap))
    for c in singles:
        parts.append([c, 0])
    # pairs of interesting cuts
    npairs = 30 if tier == 'quick' else 300
    if len(cuts) >= 2:
        if len(cuts) <= 25 and tier != 'quick':
            for i in range(len(cuts)):
                for j in range(i + 1, len(cuts)):
                    parts.append([cuts[i], cuts[j] - cuts[i], 0])
        else:
            for _ in range(npairs):
                i, j = sorted(g.r.sample(range(len(cuts)), 2))
                parts.append([cuts[i], cuts[j] - cuts[i], 0])
    return parts


def first_diff(a, b):
    la, lb = a.split('\n'), b.split('\n')
    for i in range(max(len(la), len(lb))):
        x = la[i] if i < len(la) else '<nothing>'
        y = lb[i] if i < len(lb) else '<nothing>'
        if x != y:
            return i, x[:300], y[:300]
    return None


def check_input(b, loop, mode, parts, nocc=12):
    """returns (violations, stats)"""
    jobs = [simp.parse_job(loop, mode, [0], nocc)]
    for p in parts:
        jobs.append(simp.parse_job(loop, mode, p, nocc))
    res = simp.run_jobs([simp.input_line(b)] + jobs)
    if nocc and len(res) == len(jobs) and not all(ok for ok, _ in res):
        # something crashed: if it does not crash when no occurrence is
        # asked for, the recurrence engine did it (C09/C15 territory), not
        # the parser; judge the parse (all fields, no occurrences) then
        v0, st0 = check_input(b, loop, mode, parts, nocc=0)
        if not any(x['rule'] == 'R-CRASHFREE' for x in v0):
            st0['engine_crashes'] = sum(1 for ok, _ in res if not ok)
            return v0, st0
    viol = []
    if len(res) != len(jobs):
        return [{'rule': 'R-MACHINERY', 'sig': 'simp', 'detail': 'simp returned %d results for %d jobs' % (len(res), len(jobs))}], {}
    ok0, ref = res[0]
    if not ok0:
        viol.append({'rule': 'R-CRASHFREE', 'sig': 'parser-crash:' + loop, 'sizes': [0],
                     'detail': 'single-piece delivery (%s loop): %s' % (loop, ref.split('\n')[-1])})
    for p, (ok, out) in zip(parts, res[1:]):
        if not ok:
            viol.append({'rule': 'R-CRASHFREE', 'sig': 'parser-crash:' + loop, 'sizes': p,
                         'detail': 'delivery in pieces %s (%s loop): %s' % (p[:8], loop, out.split('\n')[-1])})
        elif ok0 and out != ref:
            d = first_diff(ref, out)
            viol.append({'rule': 'R-CHUNK', 'sig': 'chunk-dependent:' + loop, 'sizes': p,
                         'detail': 'pieces %s (%s loop) line %d: one piece gives %r, pieces give %r' % (p[:8], loop, d[0], d[1], d[2])})
    return viol, {'deliveries': len(jobs), 'instructions': ref.count('\nI') + ref.startswith('I')}


def run_seed(seed, tier, opts=None):
    opts = opts or {}
    g = gen.G(seed ^ 0x10c10)
    b, label = gen_input(seed)
    loop = g.pick(['d', 'd', 'f'])
    mode = opts.get('mode') or g.pick(['x', 'x', 'b'])
    parts = partitions(b, g, tier)
    viol, st = check_input(b, loop, mode, parts)
    for v in viol:
        v['prop'] = 'C10'
        v['input'] = b.hex()
        v['loop'] = loop
        v['mode'] = mode
    res = {'seed': seed, 'viol': viol, 'stats': {'deliveries': st.get('deliveries', 0),
                                                'inputs_' + label.split(':')[0]: 1,
                                                'loop_' + loop: 1, 'mode_' + mode: 1,
                                                'instructions': st.get('instructions', 0),
                                                'engine_crashes_outside_parser': st.get('engine_crashes', 0),
                                                'input_bytes': len(b)},
           'probes': {}, 'hash': hashlib.sha1(b).hexdigest(), 'simsec': 0,
           'plan_hash': hashlib.sha1(b + loop.encode() + mode.encode()).hexdigest()[:16],
           'nops': len(parts), 'label': label, 'nbytes': len(b)}
    res['sample'] = {'input': b[:1500].decode('latin1'), 'input_bytes': len(b), 'loop': loop, 'mode': mode,
                     'partitions': len(parts), 'examples': parts[:3] + parts[-2:]}
    if st.get('instructions', 0) > 0:
        res['probes']['input_with_instructions'] = 1
    if len(b) > 4096:
        res['probes']['input_over_4k'] = 1
    return res


def replay(doc):
    """doc: {input(hex), loop, mode, sizes}; returns violations"""
    b = bytes.fromhex(doc['input'])
    viol, _ = check_input(b, doc['loop'], doc['mode'], [doc['sizes']])
    return viol


def minimise(doc, want_sig):
    """shrink the input by dropping lines while the same signature fails,
    then coarsen the partition"""
    b = bytes.fromhex(doc['input'])
    sizes = doc['sizes']

    def fails(bb, ss):
        if not bb:
            return False
        v, _ = check_input(bb, doc['loop'], doc['mode'], [ss])
        return any(x['rule'] + ' ' + x['sig'] == want_sig for x in v)

    # partition as absolute cut offsets so that dropping lines keeps it meaningful
    def cuts_of(ss, n):
        out, off, k = [], 0, 0
        while off < n and k < 10000:
            s = ss[k % len(ss)]
            k += 1
            if s <= 0:
                break
            off += s
            if off < n:
                out.append(off)
        return out

    def sizes_of(cuts):
        out, prev = [], 0
        for c in cuts:
            out.append(c - prev)
            prev = c
        return out + [0]
    cuts = cuts_of(sizes, len(b))
    if len(cuts) > 6:
        # try to get along with few cuts
        for keep in ([cuts[0]], cuts[:2], cuts[:3]):
            if fails(b, sizes_of(keep)):
                cuts = keep
                break
    budget = 200
    lines = b.split(b'\n')
    i = 0
    while i < len(lines) and budget > 0 and len(cuts) <= 6:
        cand = lines[:i] + lines[i + 1:]
        bb = b'\n'.join(cand)
        removed = len(lines[i]) + 1
        start = sum(len(x) + 1 for x in lines[:i])
        nc = []
        okc = True
        for c in cuts:
            if c <= start:
                nc.append(c)
            elif c >= start + removed:
                nc.append(c - removed)
            else:
                okc = False
        budget -= 1
        if okc and bb and fails(bb, sizes_of(nc)):
            lines, cuts, b = cand, nc, bb
        else:
            i += 1
    if len(cuts) <= 6:
        sizes = sizes_of(cuts)
    return dict(doc, input=b.hex(), sizes=sizes)
